#!/bin/bash
# usage: tools/try_mutant.sh <patch.diff> <PROP> [<PROP> ...]
# applies the patch to /repo (never committed), runs the quick checks, reverts; prints one line per check
set -u
patch="$1"; shift
cd /repo || exit 2
if ! git diff --quiet; then echo "/repo has local changes, refusing"; exit 2; fi
if ! git apply --check "$patch" 2>/dev/null; then echo "PATCH-DOES-NOT-APPLY $patch"; exit 3; fi
git apply "$patch"
trap 'git -C /repo checkout -- . ; git -C /repo clean -fdq src' EXIT
cd /verif
for p in "$@"; do
  out=$(VERIF_SCALE=${VERIF_SCALE:-1} ./check "$p" 2>&1)
  rc=$?
  nviol=$(echo "$out" | grep -c '^VIOLATION')
  first=$(echo "$out" | grep -A1 '^VIOLATION' | grep 'class:' | head -3 | sed 's/^ *class: //' | tr '\n' ';')
  echo "$p rc=$rc violations=$nviol $first"
  if [ $rc -eq 2 ]; then echo "$out" | grep -E "HARNESS-ERROR|error" | head -5; fi
done
