//! C20 — the GUI client's receive thread keeps up with the server and stops with the session.
//!
//! Real code: `launch_rdp_thread` from /repo/src/bin/mstsc-rs.rs (its source is included below; hook H2
//! swaps its thread/sync imports for shuttle's and its select(2) for `sim_wait_for_fd`), the whole rdp
//! library, native-tls/OpenSSL on both ends.
//! Simulated: threads + synchronisation (shuttle, driven by a scheduler that draws every decision from
//! the same choice tape as the workload), the socket, select(2), the GUI main loop (stand-in), the server.

use simcore::harness::{self, viol, Outcome, SharedCtx};
use simcore::refsrv::build::{self, Rect, ServerParams};
use simcore::refsrv::bytes::Wr;
use simcore::refsrv::server::{Packing, Phase};
use simcore::refsrv::world::World;
use simcore::scen::session::{gen_benign_net, ClientCfg};
use simcore::scen::{Env, ScenarioDef};
use simcore::wire::{ClientEnd, Pump};
use std::cell::RefCell;
use std::io::{self, Read, Write};
use std::rc::Rc;

#[allow(dead_code, unused_imports, unused_variables)]
mod gui {
    include!("/repo/src/bin/mstsc-rs.rs");

    /// same module => the private function of the binary is reachable
    pub fn launch<S: 'static + Read + Write + Send>(handle: usize, rdp_client: Arc<Mutex<RdpClient<S>>>, sync: Arc<AtomicBool>, bitmap_channel: Sender<BitmapEvent>) -> RdpResult<JoinHandle<()>> {
        launch_rdp_thread(handle, rdp_client, sync, bitmap_channel)
    }
}

// ------------------------------------------------------------------------------------------------ shared state of one execution

struct Shared {
    world: World,
    lock: shuttle::sync::Arc<shuttle::sync::Mutex<()>>,
    cv: shuttle::sync::Arc<shuttle::sync::Condvar>,
    /// set when the check is over: every waiter gives up
    giveup: bool,
    /// the receive thread is blocked in (simulated) select with nothing readable
    rdp_waiting: bool,
    /// polls of a dead socket
    dead_polls: u32,
    spin_detected: bool,
    wait_calls: u64,
}

thread_local! {
    static CUR: RefCell<Option<Rc<RefCell<Shared>>>> = RefCell::new(None);
}

fn cur() -> Rc<RefCell<Shared>> {
    CUR.with(|c| c.borrow().as_ref().expect("no execution").clone())
}

struct SendBox<T>(T);
unsafe impl<T> Send for SendBox<T> {}
unsafe impl<T> Sync for SendBox<T> {}

/// select(2) stand-in used by the real `launch_rdp_thread` (hook H2)
fn sim_wait_for_fd(_fd: usize) -> bool {
    let sh = cur();
    let (lock, cv) = { let s = sh.borrow(); (s.lock.clone(), s.cv.clone()) };
    let mut guard = lock.lock().unwrap();
    loop {
        {
            let mut s = sh.borrow_mut();
            s.wait_calls += 1;
            if s.giveup {
                s.rdp_waiting = false;
                return false;
            }
            let (avail, fin, rst) = { let w = s.world.wire.borrow(); (w.s2c.len(), w.server_fin, w.server_rst) };
            if avail > 0 {
                s.rdp_waiting = false;
                return true;
            }
            if fin || rst {
                // a closed socket is always "readable"
                s.dead_polls += 1;
                s.rdp_waiting = false;
                if s.dead_polls > 50 {
                    s.spin_detected = true;
                    s.giveup = true;
                    return false;
                }
                return true;
            }
        }
        // in the real world the server answers on its own: let it run before blocking
        let progressed = { let s = sh.borrow(); let p = s.world.pump(); p };
        if progressed {
            continue;
        }
        sh.borrow_mut().rdp_waiting = true;
        guard = cv.wait(guard).unwrap();
    }
}

/// blocking client end: waits (under shuttle's control) until the server has produced bytes
struct ShuttleEnd {
    inner: ClientEnd,
}
unsafe impl Send for ShuttleEnd {}

impl Read for ShuttleEnd {
    fn read(&mut self, buf: &mut [u8]) -> io::Result<usize> {
        let sh = cur();
        let (lock, cv) = { let s = sh.borrow(); (s.lock.clone(), s.cv.clone()) };
        let mut guard = lock.lock().unwrap();
        loop {
            let ready = {
                let s = sh.borrow();
                let w = s.world.wire.borrow();
                !w.s2c.is_empty() || w.server_fin || w.server_rst || s.giveup
            };
            if ready {
                if sh.borrow().giveup && sh.borrow().world.wire.borrow().s2c.is_empty() {
                    return Err(io::Error::new(io::ErrorKind::TimedOut, "sim: check is over"));
                }
                let r = self.inner.read(buf);
                drop(guard);
                return r;
            }
            let progressed = { let s = sh.borrow(); let p = s.world.pump(); p };
            if progressed {
                continue;
            }
            guard = cv.wait(guard).unwrap();
        }
    }
}

impl Write for ShuttleEnd {
    fn write(&mut self, buf: &[u8]) -> io::Result<usize> {
        let sh = cur();
        let lock = sh.borrow().lock.clone();
        let guard = lock.lock().unwrap();
        let r = self.inner.write(buf);
        // the server sees client bytes right away
        { let s = sh.borrow(); s.world.pump(); }
        drop(guard);
        r
    }
    fn flush(&mut self) -> io::Result<()> {
        Ok(())
    }
}

// ------------------------------------------------------------------------------------------------ scheduler on the choice tape

struct TapeScheduler {
    ctx: SharedCtx,
    /// switch away from the running task with probability 1/stickiness
    stickiness: u64,
    started: bool,
}

impl shuttle::scheduler::Scheduler for TapeScheduler {
    fn new_execution(&mut self) -> Option<shuttle::scheduler::Schedule> {
        if self.started {
            None
        } else {
            self.started = true;
            Some(shuttle::scheduler::Schedule::new(0))
        }
    }
    fn next_task(&mut self, runnable: &[&shuttle::scheduler::Task], current: Option<shuttle::scheduler::TaskId>, is_yielding: bool) -> Option<shuttle::scheduler::TaskId> {
        if runnable.len() == 1 {
            return Some(runnable[0].id());
        }
        let mut ctx = match self.ctx.try_borrow_mut() {
            Ok(c) => c,
            // a scheduling point while the context is borrowed: keep going deterministically
            Err(_) => return Some(current.filter(|c| runnable.iter().any(|t| t.id() == *c)).unwrap_or(runnable[0].id())),
        };
        let cur_pos = current.and_then(|c| runnable.iter().position(|t| t.id() == c));
        if is_yielding {
            // fairness at explicit yields (the liveness oracles need it): the yielding task is never chosen
            // while another one can run
            if let Some(p) = cur_pos {
                let others: Vec<usize> = (0..runnable.len()).filter(|i| *i != p).collect();
                let i = others[ctx.net_choose("sched_yield_to", others.len() as u64) as usize];
                ctx.shape_op(9, i);
                return Some(runnable[i].id());
            }
        }
        if let Some(p) = cur_pos {
            if !ctx.net_chance("sched_switch", 1, self.stickiness) {
                ctx.shape_op(7, p);
                return Some(runnable[p].id());
            }
        }
        let i = ctx.net_choose("sched_pick", runnable.len() as u64) as usize;
        ctx.shape_op(8, i);
        ctx.fault("context_switch");
        Some(runnable[i].id())
    }
    fn next_u64(&mut self) -> u64 {
        match self.ctx.try_borrow_mut() {
            Ok(mut c) => c.net_choose("shuttle_u64", u64::MAX),
            Err(_) => 0,
        }
    }
}

// ------------------------------------------------------------------------------------------------ the scenario

#[derive(Clone, Copy, Debug, PartialEq)]
enum EndMode {
    None,
    Ultimatum,
    CloseNotifyFin,
    FinWithoutCloseNotify,
    Rst,
    UndecodableRdpError,
    UndecodableIoError,
}

struct Plan {
    pdus: Vec<(Wr, Vec<Rect>, bool)>,
    end: EndMode,
    /// the end event comes after this many PDUs
    end_after: usize,
    /// ... or in the middle of the next one
    end_inside: bool,
    pause_every: u64,
    /// PDUs queued before each flush (several PDUs can then share a TLS record)
    batch: usize,
    /// the PDU that ends the session is queued before the last flush (it can share a TLS record with bitmaps)
    end_same_record: bool,
    gui_iterations: usize,
    /// the receive thread is started right after Connector::connect returns, as mstsc-rs does: the demand-active and
    /// the finalisation PDUs are the first things it has to read (they may share a TLS record with the licence PDU)
    early_launch: bool,
}

struct Report {
    outcome: Option<Outcome>,
}

fn scenario(ctxrc: SharedCtx, report: Rc<RefCell<Report>>) {
    use shuttle::sync::atomic::{AtomicBool, Ordering};
    use shuttle::sync::{mpsc, Arc, Mutex};
    // ---- plan (all from the tape) ----
    let (cfg, params, net, packing, plan) = {
        let mut ctx = ctxrc.borrow_mut();
        let mut cfg = ClientCfg::plain();
        cfg.nla = ctx.chance("nla", 1, 6);
        let mut params = ServerParams::default_for(if cfg.nla { 2 } else { 1 });
        params.tls12 = ctx.chance("tls12_server", 1, 3);
        let mut net = gen_benign_net(&mut ctx);
        net.eager = 0;
        let packing = match ctx.choose("packing", 4) { 0 => Packing::OnePerRecord, 1 => Packing::Coalesce, 2 => Packing::Split, _ => Packing::Mixed };
        let n = if ctx.chance("many_pdus", 1, 4) { 20 + ctx.choose("n_pdus_many", 41) as usize } else { 1 + ctx.choose("n_pdus", 30) as usize };
        let mut pdus = Vec::new();
        let sized_at = if ctx.chance("one_sized_pdu", 1, 6) { Some(ctx.choose("sized_at", n as u64) as usize) } else { None };
        for k in 0..n {
            if sized_at == Some(k) {
                // a PDU whose body is an exact multiple of a common block size (or next to one)
                let body = *ctx.pick("sized_body", &[16384usize, 16383, 16385, 8192, 4096]);
                let (u, r) = simcore::scen::c10::sized_bitmap_pdu(&mut ctx, body);
                pdus.push((u, r, true));
                continue;
            }
            let (u, r) = simcore::scen::c10::gen_fastpath_pdu(&mut ctx, 300, true);
            let long = ctx.chance("fp_long", 1, 4);
            pdus.push((u, r, long));
        }
        let end = *ctx.pick("end_mode", &[EndMode::None, EndMode::Ultimatum, EndMode::CloseNotifyFin, EndMode::FinWithoutCloseNotify, EndMode::Rst, EndMode::UndecodableRdpError, EndMode::UndecodableIoError, EndMode::None]);
        let end_after = ctx.choose("end_after", n as u64 + 1) as usize;
        let end_inside = matches!(end, EndMode::CloseNotifyFin | EndMode::FinWithoutCloseNotify | EndMode::Rst) && ctx.chance("end_inside_pdu", 1, 4);
        let plan = Plan { pdus, end, end_after: if end == EndMode::None { n } else { end_after }, end_inside, pause_every: 1 + ctx.choose("pause_every", 4), batch: if ctx.chance("big_batch", 1, 4) { 5 + ctx.choose("batch_big", 56) as usize } else { 1 + ctx.choose("batch", 4) as usize }, end_same_record: ctx.chance("end_in_same_record", 1, 2), gui_iterations: 40 + ctx.choose("gui_iterations", 200) as usize, early_launch: ctx.chance("early_launch", 1, 3) };
        ctx.key_str(&format!("{:?}|{:?}|{}|{}|{:?}|{:?}|{}", end, packing, plan.end_after.min(3), end_inside, net.read_mode, cfg.nla, plan.early_launch));
        ctx.step_budget = 2_000_000;
        (cfg, params, net, packing, plan)
    };
    let world = World::new(ctxrc.clone(), params.clone(), net);
    world.server.borrow_mut().packing = packing.clone();
    if cfg.nla {
        simcore::scen::install_nla(&world, &cfg);
    }
    let shared = Rc::new(RefCell::new(Shared {
        world: World { ctx: world.ctx.clone(), wire: world.wire.clone(), cfg: world.cfg.clone(), server: world.server.clone() },
        lock: Arc::new(Mutex::new(())),
        cv: Arc::new(shuttle::sync::Condvar::new()),
        giveup: false,
        rdp_waiting: false,
        dead_polls: 0,
        spin_detected: false,
        wait_calls: 0,
    }));
    CUR.with(|c| *c.borrow_mut() = Some(shared.clone()));
    let fail = |o: Outcome| {
        report.borrow_mut().outcome = Some(o);
        CUR.with(|c| *c.borrow_mut() = None);
    };

    // ---- connect + activate on this thread (the server is reactive: no blocking) ----
    let end = ShuttleEnd { inner: world.client_end() };
    let mut connector = cfg.connector();
    let client = match harness::guard(move || connector.connect(end)) {
        Err(p) => return fail(harness::panic_outcome(&p)),
        Ok(Err(e)) => return fail(viol("c20/session-not-established", "connect", format!("connect failed: {}", harness::err_kind(&e)))),
        Ok(Ok(c)) => c,
    };
    rdp::model::rnd::verif::install(None);
    let mut client = client;
    // activation on this thread (unless the receive thread is to do it): read while something the server has sent is
    // unread - on the raw transport or decrypted inside the client's TLS layer - and the server is not active yet
    if !plan.early_launch {
        for _ in 0..60 {
            world.pump();
            let unread = !world.wire.borrow().s2c.is_empty() || client.has_buffered_data();
            if !unread {
                break;
            }
            if let Err(e) = client.read(|_| {}) {
                return fail(viol("c20/session-not-established", "activation", format!("activation read failed: {}", harness::err_kind(&e))));
            }
        }
    }
    if !plan.early_launch && world.server.borrow().phase != Phase::Active {
        return fail(viol("c20/session-not-established", "activation", "server never reached Active".to_string()));
    }
    if plan.early_launch {
        ctxrc.borrow_mut().probe("receive_thread_does_the_activation");
    }
    ctxrc.borrow_mut().ev("drv", if plan.early_launch { "connected; starting threads before the activation".to_string() } else { "session active; starting threads".to_string() });

    // ---- threads ----
    let rdp_client = Arc::new(Mutex::new(client));
    let sync = Arc::new(AtomicBool::new(true));
    let (tx, rx) = mpsc::channel();
    let handle = match gui::launch(0, Arc::clone(&rdp_client), Arc::clone(&sync), tx) {
        Ok(h) => h,
        Err(_) => return fail(Outcome::HarnessError("launch_rdp_thread failed".into())),
    };
    let driver_done = Arc::new(AtomicBool::new(false));
    let ended = Arc::new(AtomicBool::new(false));
    let startup_stall = Arc::new(AtomicBool::new(false));
    let ss = startup_stall.clone();
    let early = plan.early_launch;
    let dd = driver_done.clone();
    let en = ended.clone();
    let plan_box = SendBox((plan.pdus.clone(), plan.end, plan.end_after, plan.end_inside, plan.pause_every, shared.clone(), plan.batch, plan.end_same_record));
    let driver = shuttle::thread::spawn(move || {
        let pb = plan_box;
        let (pdus, end, end_after, end_inside, pause_every, sh, batch, end_same_record) = (&pb.0 .0, pb.0 .1, pb.0 .2, pb.0 .3, pb.0 .4, pb.0 .5.clone(), pb.0 .6, pb.0 .7);
        let (lock, cv) = { let s = sh.borrow(); (s.lock.clone(), s.cv.clone()) };
        if early {
            // the server waits for the client's confirm-active and finalisation before it sends graphics; it is
            // reactive, so whenever the receive thread sits in select() with nothing on the socket while the server
            // is not active yet, nobody will ever move again
            let mut spins = 0u32;
            loop {
                {
                    let _g = lock.lock().unwrap();
                    let s = sh.borrow();
                    if s.world.server.borrow().phase == Phase::Active { break; }
                    let raw_empty = s.world.wire.borrow().s2c.is_empty();
                    if (s.rdp_waiting && raw_empty) || spins > 200_000 {
                        ss.store(true, Ordering::SeqCst);
                        dd.store(true, Ordering::SeqCst);
                        return;
                    }
                }
                spins += 1;
                shuttle::thread::yield_now();
            }
        }
        for (k, (updates, _rects, long)) in pdus.iter().enumerate() {
            if k == end_after {
                break;
            }
            {
                let _g = lock.lock().unwrap();
                let s = sh.borrow();
                let mut srv = s.world.server.borrow_mut();
                srv.send_fastpath(&format!("fast-path#{}", k), updates, *long);
                let last = k + 1 == end_after.min(pdus.len());
                let hold_for_end = last && end_same_record && !end_inside && matches!(end, EndMode::Ultimatum | EndMode::UndecodableRdpError | EndMode::UndecodableIoError);
                if ((k + 1) % batch == 0 || last) && !hold_for_end {
                    srv.flush();
                    cv.notify_all();
                }
            }
            if (k as u64 + 1) % pause_every == 0 {
                shuttle::thread::yield_now();
            }
        }
        // the end event
        {
            let _g = lock.lock().unwrap();
            let s = sh.borrow();
            let mut srv = s.world.server.borrow_mut();
            if end_inside && end_after < pdus.len() {
                // half a PDU, then the end
                let w = build::fastpath(&pdus[end_after].0, pdus[end_after].2, 0);
                let half = w.buf.len() / 2;
                srv.queue_raw("half-a-pdu", w.buf[..half.max(1)].to_vec());
                srv.flush();
            }
            match end {
                EndMode::None => {}
                EndMode::Ultimatum => { srv.send_disconnect_ultimatum(); srv.flush(); }
                EndMode::CloseNotifyFin => srv.close_fin(),
                EndMode::FinWithoutCloseNotify => srv.close_abrupt_fin(),
                EndMode::Rst => srv.close_rst(),
                EndMode::UndecodableRdpError => {
                    // a TPKT frame whose MCS opcode is not a send-data indication
                    srv.queue_raw("undecodable(mcs opcode)", vec![3, 0, 0, 9, 2, 0xf0, 0x80, 0x7c, 0x00]);
                    srv.flush();
                }
                EndMode::UndecodableIoError => {
                    // a TPKT frame that stops inside the X.224 data header
                    srv.queue_raw("undecodable(truncated x224)", vec![3, 0, 0, 6, 2, 0xf0]);
                    srv.flush();
                }
            }
            if end != EndMode::None {
                en.store(true, Ordering::SeqCst);
            }
            cv.notify_all();
        }
        dd.store(true, Ordering::SeqCst);
    });

    // ---- GUI stand-in (this thread): the calls main_gui_loop makes, without a window ----
    let mut received: Vec<rdp::core::event::BitmapEvent> = Vec::new();
    let mut disconnected = false;
    let mut quiescent = false;
    let mut iterations = 0usize;
    let max_iter = plan.gui_iterations + 400;
    while iterations < max_iter {
        iterations += 1;
        loop {
            match rx.try_recv() {
                Ok(b) => received.push(b),
                Err(mpsc::TryRecvError::Empty) => break,
                Err(mpsc::TryRecvError::Disconnected) => {
                    sync.store(false, Ordering::Relaxed);
                    disconnected = true;
                    break;
                }
            }
        }
        if disconnected {
            break;
        }
        // input, like the GUI does on every frame
        if iterations % 3 == 0 {
            let mut g = rdp_client.lock().unwrap();
            let _ = g.try_write(rdp::core::event::RdpEvent::Pointer(rdp::core::event::PointerEvent { x: iterations as u16, y: 1, button: rdp::core::event::PointerButton::None, down: false }));
        }
        // quiescence: the driver has sent everything, and the receive thread sits in select with nothing readable
        if driver_done.load(Ordering::SeqCst) && iterations >= plan.gui_iterations.min(60) {
            let (waiting, raw_empty) = { let s = shared.borrow(); let w = s.world.wire.borrow(); (s.rdp_waiting, w.s2c.is_empty()) };
            if waiting && raw_empty && !ended.load(Ordering::SeqCst) {
                quiescent = true;
                break;
            }
            if ended.load(Ordering::SeqCst) && iterations >= plan.gui_iterations {
                break;
            }
        }
        shuttle::thread::yield_now();
    }
    // late arrivals
    while let Ok(b) = rx.try_recv() {
        received.push(b);
    }
    let spin = shared.borrow().spin_detected;
    let ended_flag = ended.load(Ordering::SeqCst);
    let thread_gone = disconnected || matches!(rx.try_recv(), Err(mpsc::TryRecvError::Disconnected));

    // ---- oracles ----
    let sent_before_end: Vec<Rect> = plan.pdus.iter().take(plan.end_after).flat_map(|(_, r, _)| r.clone()).collect();
    let mut outcome: Option<Outcome> = None;
    // (0) start-up: whatever Connector::connect left unread must be dispatched without further server traffic
    if startup_stall.load(Ordering::SeqCst) {
        let phase = format!("{:?}", world.server.borrow().phase);
        outcome = Some(viol("c20/stall", &format!("start-up packing={:?}", packing), format!("connect() returned, the server has sent its demand-active and waits for the confirm-active (server phase {}); the receive thread waits in select() with the raw socket empty: what connect() left inside the TLS layer is never dispatched", phase)));
    }
    let sent_before_end: Vec<Rect> = if startup_stall.load(Ordering::SeqCst) { Vec::new() } else { sent_before_end };
    // (3) order / content of what was forwarded
    if outcome.is_none() { if let Some((site, detail)) = prefix_mismatch(&received, &sent_before_end) {
        outcome = Some(viol("c20/forwarding", &site, detail));
    } }
    // (3b) an in-band end (ultimatum, undecodable PDU, orderly or abrupt FIN) comes after the bitmaps on an ordered
    // stream: once the thread has stopped, every rectangle sent before the end must have been forwarded
    if outcome.is_none() && thread_gone && !plan.end_inside && matches!(plan.end, EndMode::Ultimatum | EndMode::UndecodableRdpError | EndMode::UndecodableIoError | EndMode::CloseNotifyFin | EndMode::FinWithoutCloseNotify) {
        if received.len() < sent_before_end.len() {
            outcome = Some(viol("c20/lost-before-end", &format!("{:?}", plan.end), format!("the session ended by {:?} after {} rectangles had been sent; the thread stopped having forwarded only {} of them", plan.end, sent_before_end.len(), received.len())));
        } else {
            ctxrc.borrow_mut().probe("all_forwarded_before_end");
        }
    }
    // (2b) the thread ends only with the connection
    if outcome.is_none() && thread_gone && !ended_flag {
        outcome = Some(viol("c20/thread-died-on-live-session", &format!("{:?}", packing), format!("the receive thread ended (bitmap channel disconnected) although the server never ended the session; {} of {} rectangles had been forwarded", received.len(), sent_before_end.len())));
    }
    // (1) keep-up at quiescence
    if outcome.is_none() && plan.end == EndMode::None {
        if quiescent || driver_done.load(Ordering::SeqCst) && shared.borrow().rdp_waiting {
            if received.len() < sent_before_end.len() {
                let (records, fragments) = (format!("{:?}", packing), 0);
                let _ = fragments;
                outcome = Some(viol("c20/stall", &format!("packing={}", records), format!("the server has sent {} bitmap rectangles in {} PDUs and is silent; the receive thread waits in select() with the raw socket empty, yet only {} rectangles were dispatched (the rest sits decrypted inside the TLS layer)", sent_before_end.len(), plan.end_after, received.len())));
            } else {
                ctxrc.borrow_mut().probe("keep_up_checked_at_quiescence");
            }
        } else {
            ctxrc.borrow_mut().probe("inconclusive_no_quiescence");
        }
    }
    // (2) termination
    if outcome.is_none() && ended_flag {
        if spin {
            outcome = Some(viol("c20/spin", &format!("{:?}", plan.end), format!("after the connection ended ({:?}{}) the receive thread polled the dead socket more than 50 times instead of stopping", plan.end, if plan.end_inside { ", inside a PDU" } else { "" })));
        } else if !thread_gone {
            // wait for a definite answer: the thread ends (channel disconnected), spins on the dead socket,
            // or sits in select() on an open, silent socket (= it survived the end of the session)
            let mut verdict = 0u8;
            for _ in 0..2_000_000u32 {
                if matches!(rx.try_recv(), Err(mpsc::TryRecvError::Disconnected)) { verdict = 1; break; }
                let (spin, waiting, raw_empty, closed) = { let s = shared.borrow(); let w = s.world.wire.borrow(); (s.spin_detected, s.rdp_waiting, w.s2c.is_empty(), w.server_fin || w.server_rst) };
                if spin { verdict = 2; break; }
                if waiting && raw_empty && !closed { verdict = 3; break; }
                shuttle::thread::yield_now();
            }
            match verdict {
                1 => ctxrc.borrow_mut().probe("terminated_after_end"),
                2 => outcome = Some(viol("c20/spin", &format!("{:?}", plan.end), format!("after the connection ended ({:?}) the receive thread polled the dead socket more than 50 times instead of stopping", plan.end))),
                3 => outcome = Some(viol("c20/thread-survives-end", &format!("{:?}", plan.end), format!("the connection ended ({:?}{}) but the receive thread is still alive, waiting in select() for more traffic, and keeps its handle on the shared client", plan.end, if plan.end_inside { ", inside a PDU" } else { "" }))),
                _ => ctxrc.borrow_mut().probe("inconclusive_termination"),
            }
        } else {
            ctxrc.borrow_mut().probe("terminated_after_end");
        }
    }
    // ---- wind down: everybody gives up ----
    {
        let (lock, cv) = { let s = shared.borrow(); (s.lock.clone(), s.cv.clone()) };
        let _g = lock.lock().unwrap();
        shared.borrow_mut().giveup = true;
        cv.notify_all();
    }
    sync.store(false, Ordering::Relaxed);
    // the stand-in can take the mutex afterwards (like main_gui_loop does for shutdown)
    match rdp_client.lock() {
        Ok(mut g) => { let _ = g.shutdown(); }
        Err(_) => {
            if outcome.is_none() {
                outcome = Some(viol("c20/mutex-poisoned", &format!("{:?}", plan.end), "the shared client mutex is poisoned after the session ended".to_string()));
            }
        }
    }
    let _ = driver.join();
    let _ = handle.join();
    {
        let mut ctx = ctxrc.borrow_mut();
        ctx.ev("drv", format!("end={:?} sent={} received={} quiescent={} thread_gone={} wait_calls={}", plan.end, sent_before_end.len(), received.len(), quiescent, thread_gone, shared.borrow().wait_calls));
        ctx.nontrivial = true;
        match plan.end { EndMode::None => ctx.probe("end_none"), EndMode::Ultimatum => ctx.probe("end_ultimatum"), EndMode::CloseNotifyFin => ctx.probe("end_close_notify"), EndMode::FinWithoutCloseNotify => ctx.probe("end_fin"), EndMode::Rst => ctx.probe("end_rst"), _ => ctx.probe("end_undecodable") }
    }
    report.borrow_mut().outcome = Some(outcome.unwrap_or(Outcome::Pass));
    CUR.with(|c| *c.borrow_mut() = None);
}

fn prefix_mismatch(got: &[rdp::core::event::BitmapEvent], want: &[Rect]) -> Option<(String, String)> {
    if got.len() > want.len() {
        return Some(("extra-events".into(), format!("{} events forwarded, {} rectangles sent", got.len(), want.len())));
    }
    simcore::scen::c10::compare_rects(got, &want[..got.len()])
}

fn run_c20(env: &mut Env) -> Outcome {
    let ctxrc = env.ctx.clone();
    let stickiness = { let mut c = ctxrc.borrow_mut(); *c.pick("stickiness", &[4u64, 2, 8, 16, 3]) };
    let report = Rc::new(RefCell::new(Report { outcome: None }));
    let sched = TapeScheduler { ctx: ctxrc.clone(), stickiness, started: false };
    let mut config = shuttle::Config::new();
    config.stack_size = 1 << 20;
    config.max_steps = shuttle::MaxSteps::FailAfter(6_000_000);
    config.failure_persistence = shuttle::FailurePersistence::None;
    config.silence_warnings = true;
    let payload = SendBox((ctxrc.clone(), report.clone()));
    let res = harness::guard(move || {
        let runner = shuttle::Runner::new(sched, config);
        runner.run(move || {
            let p = &payload;
            scenario(p.0 .0.clone(), p.0 .1.clone());
        });
    });
    CUR.with(|c| *c.borrow_mut() = None);
    rdp::model::rnd::verif::install(None);
    match res {
        Ok(()) => report.borrow_mut().outcome.take().unwrap_or(Outcome::HarnessError("scenario produced no outcome".into())),
        Err(p) => {
            let msg = p.message.to_lowercase();
            if msg.contains("deadlock") {
                viol("c20/deadlock", "all-threads-blocked", format!("every thread is blocked: {}", p.message.lines().next().unwrap_or("")))
            } else if msg.contains("exceeded max_steps") || msg.contains("max_steps") {
                viol("c20/step-budget", "scheduler-steps", "the execution exceeded 6000000 scheduling steps (a thread spins)".to_string())
            } else if p.file.starts_with("/repo/") {
                harness::panic_outcome(&p)
            } else {
                Outcome::HarnessError(format!("panic during the shuttle execution at {}:{}: {}", p.file, p.line, p.message))
            }
        }
    }
}

fn main() {
    simcore::cli::cli_main(vec![ScenarioDef { property: "C20", name: "c20/receive-thread", run: run_c20, quick_cases: 4_000, thorough_cases: 1_000_000, needs_tls: true }]);
}
