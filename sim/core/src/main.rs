fn main() {
    simcore::cli::cli_main(simcore::scen::registry());
}
