//! Deterministic simulation with fault injection for citronneur/rdp-rs (see /verif/DESIGN.md).

pub mod alloc;
pub mod prng;
pub mod tape;
pub mod wire;
pub mod harness;
pub mod refsrv;
pub mod scen;
pub mod cli;

#[global_allocator]
static GLOBAL: alloc::Meter = alloc::Meter;
