//! The choice tape: every decision of a run is one `choose` call. In generation mode the value
//! comes from the per-case PRNG and is appended to the tape; in replay mode it is read back from
//! the tape (mod n; an exhausted tape yields 0). 0 is always the benign choice.

use crate::prng::{fnv1a, mix, Rng};
use std::collections::BTreeMap;

#[derive(Clone, Debug)]
pub struct Event {
    pub seq: u64,
    pub kind: &'static str,
    pub text: String,
}

pub struct Ctx {
    rng: Rng,
    /// second, independent stream for transport-level decisions (read/write sizes, EINTR, eager pumps,
    /// thread scheduling): their number can differ by one or two between runs when OpenSSL produces an
    /// ECDSA signature of another length, and that must not shift the workload decisions
    net_rng: Rng,
    pub net_vals: Vec<u64>,
    pub net_labels: Vec<&'static str>,
    net_pos: usize,
    pub replay: bool,
    pub tape_vals: Vec<u64>,
    pub tape_labels: Vec<&'static str>,
    pos: usize,
    /// faults actually fired (counted at injection)
    pub faults: BTreeMap<&'static str, u64>,
    /// rare-condition probes
    pub probes: BTreeMap<&'static str, u64>,
    /// transport steps + server pumps
    pub steps: u64,
    pub step_budget: u64,
    pub budget_exceeded: bool,
    /// event log with a global sequence number (never draws, never reads a clock)
    pub log: Vec<Event>,
    pub log_enabled: bool,
    seq: u64,
    /// running hash of the plaintext-level event log
    pub digest: u64,
    /// set when the course of the case depends on the one source of nondeterminism inside the client that no seam owns
    /// (the iteration order of `mcs::Client`'s channel HashMap): the determinism proof then compares the tape only
    pub order_dependent: bool,
    /// running hash of the (op, size-bucket) schedule shape
    pub shape: u64,
    /// key describing (fault kind, site, value class, config) for distinct counting
    pub key: u64,
    pub nontrivial: bool,
}

impl Ctx {
    pub fn generate(seed: u64, scenario: &str, case: u64) -> Ctx {
        let mut c = Ctx::new(Rng::for_case(seed, scenario, case), false, Vec::new());
        c.net_rng = Rng::for_case(seed ^ 0x6e65_7473_7472_6561, scenario, case);
        c
    }

    pub fn replay(vals: Vec<u64>) -> Ctx {
        Ctx::new(Rng::new(0), true, vals)
    }

    pub fn replay2(vals: Vec<u64>, net_vals: Vec<u64>) -> Ctx {
        let mut c = Ctx::new(Rng::new(0), true, vals);
        c.net_vals = net_vals;
        c
    }

    fn new(rng: Rng, replay: bool, vals: Vec<u64>) -> Ctx {
        Ctx {
            rng,
            net_rng: Rng::new(1),
            net_vals: Vec::new(),
            net_labels: Vec::new(),
            net_pos: 0,
            replay,
            tape_vals: vals,
            tape_labels: Vec::new(),
            pos: 0,
            faults: BTreeMap::new(),
            probes: BTreeMap::new(),
            steps: 0,
            step_budget: 20_000,
            budget_exceeded: false,
            log: Vec::new(),
            log_enabled: false,
            seq: 0,
            digest: 0x1234_5678_9abc_def0,
            order_dependent: false,
            shape: 0,
            key: 0,
            nontrivial: false,
        }
    }

    /// one decision in 0..n
    pub fn choose(&mut self, label: &'static str, n: u64) -> u64 {
        let n = n.max(1);
        if self.replay {
            let v = if self.pos < self.tape_vals.len() { self.tape_vals[self.pos] % n } else { 0 };
            self.pos += 1;
            if self.tape_labels.len() < 100_000 {
                self.tape_labels.push(label);
            }
            v
        } else {
            let v = self.rng.below(n);
            self.tape_vals.push(v);
            self.tape_labels.push(label);
            self.pos += 1;
            v
        }
    }

    /// one transport-level decision in 0..n (separate stream and tape)
    pub fn net_choose(&mut self, label: &'static str, n: u64) -> u64 {
        let n = n.max(1);
        if self.replay {
            let v = if self.net_pos < self.net_vals.len() { self.net_vals[self.net_pos] % n } else { 0 };
            self.net_pos += 1;
            if self.net_labels.len() < 100_000 {
                self.net_labels.push(label);
            }
            v
        } else {
            let v = self.net_rng.below(n);
            self.net_vals.push(v);
            self.net_labels.push(label);
            self.net_pos += 1;
            v
        }
    }

    pub fn net_chance(&mut self, label: &'static str, num: u64, den: u64) -> bool {
        let v = self.net_choose(label, den);
        v >= den - num.min(den)
    }

    /// true with probability num/den; 0 on the tape is "false" (benign)
    pub fn chance(&mut self, label: &'static str, num: u64, den: u64) -> bool {
        let v = self.choose(label, den);
        v >= den - num.min(den)
    }

    /// a value in lo..=hi where tape value 0 maps to `lo`
    pub fn range(&mut self, label: &'static str, lo: u64, hi: u64) -> u64 {
        lo + self.choose(label, hi - lo + 1)
    }

    pub fn pick<'a, T>(&mut self, label: &'static str, items: &'a [T]) -> &'a T {
        let i = self.choose(label, items.len() as u64) as usize;
        &items[i]
    }

    pub fn bytes(&mut self, label: &'static str, k: usize) -> Vec<u8> {
        let mut out = Vec::with_capacity(k);
        let mut i = 0;
        while i < k {
            let v = self.choose(label, u64::MAX);
            for b in v.to_le_bytes().iter() {
                if i < k {
                    out.push(*b);
                    i += 1;
                }
            }
        }
        out
    }

    /// boundary-biased u16
    pub fn u16_boundary(&mut self, label: &'static str) -> u16 {
        const B: [u16; 16] = [0, 1, 2, 3, 0x7f, 0x80, 0xff, 0x100, 0x7fff, 0x8000, 0xfffe, 0xffff, 800, 600, 1024, 4];
        let k = self.choose(label, 3);
        if k == 0 {
            B[self.choose(label, B.len() as u64) as usize]
        } else {
            self.choose(label, 65536) as u16
        }
    }

    pub fn fault(&mut self, kind: &'static str) {
        *self.faults.entry(kind).or_insert(0) += 1;
    }

    pub fn probe(&mut self, name: &'static str) {
        *self.probes.entry(name).or_insert(0) += 1;
    }

    /// one transport call or one server pump; returns false once the budget is exhausted
    pub fn step(&mut self) -> bool {
        self.steps += 1;
        if self.steps > self.step_budget {
            self.budget_exceeded = true;
            return false;
        }
        true
    }

    pub fn shape_op(&mut self, op: u8, size: usize) {
        let bucket = if size == 0 { 0 } else { 64 - (size as u64).leading_zeros() as u64 };
        self.shape = mix(self.shape, ((op as u64) << 8) | bucket);
    }

    pub fn key_add(&mut self, part: u64) {
        self.key = mix(self.key, part);
    }

    pub fn key_str(&mut self, s: &str) {
        self.key = mix(self.key, fnv1a(s.as_bytes()));
    }

    /// append to the event log (plaintext-level: contributes to the digest)
    pub fn ev(&mut self, kind: &'static str, text: String) {
        self.seq += 1;
        self.digest = mix(self.digest, fnv1a(kind.as_bytes()) ^ fnv1a(text.as_bytes()).rotate_left(17));
        if self.log_enabled {
            self.log.push(Event { seq: self.seq, kind, text });
        }
    }

    /// raw-level note: logged, but kept out of the digest (ciphertext differs between runs)
    pub fn ev_raw(&mut self, kind: &'static str, text: impl FnOnce() -> String) {
        self.seq += 1;
        if self.log_enabled {
            let text = text();
            self.log.push(Event { seq: self.seq, kind, text });
        }
    }

    pub fn seq(&self) -> u64 {
        self.seq
    }
}

pub fn hex(b: &[u8]) -> String {
    let mut s = String::with_capacity(b.len() * 2);
    for x in b {
        s.push_str(&format!("{:02x}", x));
    }
    s
}

pub fn hex_short(b: &[u8]) -> String {
    if b.len() <= 48 {
        hex(b)
    } else {
        format!("{}..({} bytes)", hex(&b[..48]), b.len())
    }
}
