//! splitmix64 + xoshiro256** : the only source of randomness in the simulator.

#[derive(Clone)]
pub struct Rng {
    s: [u64; 4],
}

pub fn splitmix64(x: &mut u64) -> u64 {
    *x = x.wrapping_add(0x9E3779B97F4A7C15);
    let mut z = *x;
    z = (z ^ (z >> 30)).wrapping_mul(0xBF58476D1CE4E5B9);
    z = (z ^ (z >> 27)).wrapping_mul(0x94D049BB133111EB);
    z ^ (z >> 31)
}

/// FNV-1a, used for stable hashing of labels / keys (never std's RandomState).
pub fn fnv1a(data: &[u8]) -> u64 {
    let mut h: u64 = 0xcbf29ce484222325;
    for b in data {
        h ^= *b as u64;
        h = h.wrapping_mul(0x100000001b3);
    }
    h
}

pub fn mix(a: u64, b: u64) -> u64 {
    let mut x = a ^ b.wrapping_mul(0x9E3779B97F4A7C15).rotate_left(23);
    splitmix64(&mut x)
}

impl Rng {
    pub fn new(seed: u64) -> Rng {
        let mut x = seed;
        let s = [splitmix64(&mut x), splitmix64(&mut x), splitmix64(&mut x), splitmix64(&mut x)];
        Rng { s }
    }

    /// per-case generator: seed xor hash(property, scenario) + case index
    pub fn for_case(seed: u64, scenario: &str, case: u64) -> Rng {
        Rng::new((seed ^ fnv1a(scenario.as_bytes())).wrapping_add(case.wrapping_mul(0xD1342543DE82EF95)))
    }

    pub fn next_u64(&mut self) -> u64 {
        let result = self.s[1].wrapping_mul(5).rotate_left(7).wrapping_mul(9);
        let t = self.s[1] << 17;
        self.s[2] ^= self.s[0];
        self.s[3] ^= self.s[1];
        self.s[1] ^= self.s[2];
        self.s[0] ^= self.s[3];
        self.s[2] ^= t;
        self.s[3] = self.s[3].rotate_left(45);
        result
    }

    /// uniform in 0..n (n > 0); slight modulo bias is irrelevant here
    pub fn below(&mut self, n: u64) -> u64 {
        if n <= 1 {
            return 0;
        }
        self.next_u64() % n
    }
}
