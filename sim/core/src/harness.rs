//! Panic capture / attribution, the violation type, and helpers shared by all scenarios.

use crate::alloc;
use crate::tape::Ctx;
use std::cell::{Cell, RefCell};
use std::panic::{self, AssertUnwindSafe};
use std::rc::Rc;

#[derive(Clone, Debug)]
pub struct Violation {
    /// oracle identifier, e.g. "panic", "c13/overconsume"
    pub oracle: String,
    /// specific site: source line for panics, oracle-specific key otherwise
    pub site: String,
    pub detail: String,
}

impl Violation {
    pub fn new(oracle: &str, site: &str, detail: String) -> Violation {
        Violation { oracle: oracle.to_string(), site: site.to_string(), detail }
    }
    pub fn class(&self) -> String {
        format!("{}|{}", self.oracle, self.site)
    }
}

#[derive(Debug)]
pub enum Outcome {
    Pass,
    Violation(Violation),
    /// the harness itself failed: exit 2, never a violation
    HarnessError(String),
}

#[derive(Clone, Debug)]
pub struct PanicRecord {
    pub message: String,
    pub file: String,
    pub line: u32,
    pub in_harness: bool,
    pub sut_frame: String,
}

thread_local! {
    static LAST_PANIC: RefCell<Option<PanicRecord>> = RefCell::new(None);
    static HARNESS_DEPTH: Cell<u32> = const { Cell::new(0) };
}

/// mark a region as harness code (reference server etc.): a panic there is a harness error
pub struct HarnessRegion {
    was_armed: bool,
}
impl HarnessRegion {
    pub fn enter() -> HarnessRegion {
        HARNESS_DEPTH.with(|d| d.set(d.get() + 1));
        HarnessRegion { was_armed: alloc::pause() }
    }
}
impl Drop for HarnessRegion {
    fn drop(&mut self) {
        HARNESS_DEPTH.with(|d| d.set(d.get() - 1));
        alloc::resume(self.was_armed);
    }
}

pub fn install_panic_hook() {
    panic::set_hook(Box::new(|info| {
        let was = alloc::pause();
        let message = if let Some(s) = info.payload().downcast_ref::<&str>() {
            s.to_string()
        } else if let Some(s) = info.payload().downcast_ref::<String>() {
            s.clone()
        } else {
            "<non-string panic>".to_string()
        };
        let (file, line) = match info.location() {
            Some(l) => (l.file().to_string(), l.line()),
            None => ("<unknown>".to_string(), 0),
        };
        let in_harness = HARNESS_DEPTH.with(|d| d.get()) > 0;
        let mut sut_frame = String::new();
        if !file.starts_with("/repo/") {
            // find the innermost frame of the library under test
            let bt = std::backtrace::Backtrace::force_capture().to_string();
            for l in bt.lines() {
                let t = l.trim();
                if let Some(pos) = t.find("rdp::") {
                    let name = &t[pos..];
                    // strip hash suffix
                    let name = match name.rfind("::h") {
                        Some(p) if name.len() - p == 19 => &name[..p],
                        _ => name,
                    };
                    sut_frame = name.to_string();
                    break;
                }
            }
        }
        LAST_PANIC.with(|p| *p.borrow_mut() = Some(PanicRecord { message, file, line, in_harness, sut_frame }));
        alloc::resume(was);
    }));
}

/// Run code under test; a panic is caught and returned.
pub fn guard<T>(f: impl FnOnce() -> T) -> Result<T, PanicRecord> {
    LAST_PANIC.with(|p| *p.borrow_mut() = None);
    match panic::catch_unwind(AssertUnwindSafe(f)) {
        Ok(v) => Ok(v),
        Err(_) => {
            alloc::pause();
            let rec = LAST_PANIC.with(|p| p.borrow_mut().take()).unwrap_or(PanicRecord {
                message: "<no record>".into(),
                file: "<unknown>".into(),
                line: 0,
                in_harness: false,
                sut_frame: String::new(),
            });
            Err(rec)
        }
    }
}

fn source_line(file: &str, line: u32) -> String {
    if let Ok(text) = std::fs::read_to_string(file) {
        if let Some(l) = text.lines().nth((line as usize).saturating_sub(1)) {
            let t: String = l.split_whitespace().collect::<Vec<_>>().join(" ");
            return t;
        }
    }
    String::new()
}

/// Turn a caught panic into a violation (or a harness error).
pub fn panic_outcome(rec: &PanicRecord) -> Outcome {
    let harness_file = rec.file.starts_with("/verif/") || rec.file.starts_with("core/src/") || rec.file.starts_with("shuttleworld/");
    if rec.in_harness || harness_file {
        return Outcome::HarnessError(format!("panic in harness at {}:{}: {}", rec.file, rec.line, rec.message));
    }
    let site = if rec.file.starts_with("/repo/") {
        let rel = &rec.file["/repo/".len()..];
        format!("{} :: {}", rel, source_line(&rec.file, rec.line))
    } else {
        let short = match rec.file.find("/src/") {
            Some(_) if rec.file.contains("/registry/") => {
                let p = rec.file.rfind("/registry/src/").map(|p| p + 14).unwrap_or(0);
                let rest = &rec.file[p..];
                match rest.find('/') { Some(q) => rest[q + 1..].to_string(), None => rest.to_string() }
            }
            _ => match rec.file.find("/library/") { Some(p) => rec.file[p + 1..].to_string(), None => rec.file.clone() },
        };
        let msg: String = rec.message.chars().take(40).collect();
        format!("{} via {} :: {}", short, rec.sut_frame, msg)
    };
    Outcome::Violation(Violation::new("panic", &site, format!("panic at {}:{}: {}", rec.file, rec.line, rec.message)))
}

pub type SharedCtx = Rc<RefCell<Ctx>>;

pub fn viol(oracle: &str, site: &str, detail: String) -> Outcome {
    Outcome::Violation(Violation::new(oracle, site, detail))
}

/// describe an rdp error compactly (never formats ciphertext etc.)
pub fn err_kind(e: &rdp::model::error::Error) -> String {
    use rdp::model::error::Error;
    match e {
        Error::RdpError(r) => format!("Rdp({:?})", r.kind()),
        Error::Io(i) => format!("Io({:?})", i.kind()),
        Error::SslHandshakeError => "SslHandshake".to_string(),
        Error::SslError(_) => "Ssl".to_string(),
        Error::ASN1Error(a) => format!("ASN1({:?})", a.kind()),
        Error::TryError(_) => "Try".to_string(),
    }
}
