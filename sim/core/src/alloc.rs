//! Counting allocator: armed only while code under test runs.

use std::alloc::{GlobalAlloc, Layout, System};
use std::cell::Cell;

pub struct Meter;

thread_local! {
    static ARMED: Cell<bool> = const { Cell::new(false) };
    static MAX_SINGLE: Cell<usize> = const { Cell::new(0) };
    static LIVE: Cell<isize> = const { Cell::new(0) };
    static PEAK: Cell<isize> = const { Cell::new(0) };
    static COUNT: Cell<u64> = const { Cell::new(0) };
}

/// requests above this are refused (null), after the size was recorded
pub const REFUSE_ABOVE: usize = 1 << 30;
/// an armed region that allocates this often is spinning (e.g. an array reader that never terminates)
pub const SPIN_COUNT: u64 = 30_000_000;

unsafe impl GlobalAlloc for Meter {
    unsafe fn alloc(&self, layout: Layout) -> *mut u8 {
        let armed = ARMED.try_with(|a| a.get()).unwrap_or(false);
        if armed {
            let sz = layout.size();
            let _ = MAX_SINGLE.try_with(|m| if sz > m.get() { m.set(sz) });
            let n = COUNT.try_with(|c| { c.set(c.get() + 1); c.get() }).unwrap_or(0);
            if n > SPIN_COUNT {
                let msg = b"SIM-ALLOC-SPIN\n";
                libc::write(2, msg.as_ptr() as *const libc::c_void, msg.len());
                libc::abort();
            }
            let _ = LIVE.try_with(|l| {
                l.set(l.get() + sz as isize);
                let _ = PEAK.try_with(|p| if l.get() > p.get() { p.set(l.get()) });
            });
            if sz > REFUSE_ABOVE {
                // leave a trace for the supervisor before the abort that follows
                let msg = b"SIM-ALLOC-REFUSED\n";
                libc::write(2, msg.as_ptr() as *const libc::c_void, msg.len());
                return std::ptr::null_mut();
            }
        }
        System.alloc(layout)
    }
    unsafe fn dealloc(&self, ptr: *mut u8, layout: Layout) {
        let armed = ARMED.try_with(|a| a.get()).unwrap_or(false);
        if armed {
            let _ = LIVE.try_with(|l| l.set(l.get() - layout.size() as isize));
        }
        System.dealloc(ptr, layout)
    }
    unsafe fn alloc_zeroed(&self, layout: Layout) -> *mut u8 {
        let armed = ARMED.try_with(|a| a.get()).unwrap_or(false);
        if armed {
            let sz = layout.size();
            let _ = MAX_SINGLE.try_with(|m| if sz > m.get() { m.set(sz) });
            let _ = COUNT.try_with(|c| c.set(c.get() + 1));
            let _ = LIVE.try_with(|l| {
                l.set(l.get() + sz as isize);
                let _ = PEAK.try_with(|p| if l.get() > p.get() { p.set(l.get()) });
            });
            if sz > REFUSE_ABOVE {
                let msg = b"SIM-ALLOC-REFUSED\n";
                libc::write(2, msg.as_ptr() as *const libc::c_void, msg.len());
                return std::ptr::null_mut();
            }
        }
        System.alloc_zeroed(layout)
    }
    unsafe fn realloc(&self, ptr: *mut u8, layout: Layout, new_size: usize) -> *mut u8 {
        let armed = ARMED.try_with(|a| a.get()).unwrap_or(false);
        if armed {
            let _ = MAX_SINGLE.try_with(|m| if new_size > m.get() { m.set(new_size) });
            let _ = COUNT.try_with(|c| c.set(c.get() + 1));
            let _ = LIVE.try_with(|l| {
                l.set(l.get() + new_size as isize - layout.size() as isize);
                let _ = PEAK.try_with(|p| if l.get() > p.get() { p.set(l.get()) });
            });
            if new_size > REFUSE_ABOVE {
                let msg = b"SIM-ALLOC-REFUSED\n";
                libc::write(2, msg.as_ptr() as *const libc::c_void, msg.len());
                return std::ptr::null_mut();
            }
        }
        System.realloc(ptr, layout, new_size)
    }
}

#[derive(Clone, Copy, Debug, Default)]
pub struct AllocStats {
    pub max_single: usize,
    pub peak_live: isize,
    pub count: u64,
}

pub fn arm() {
    MAX_SINGLE.with(|m| m.set(0));
    LIVE.with(|m| m.set(0));
    PEAK.with(|m| m.set(0));
    COUNT.with(|m| m.set(0));
    ARMED.with(|a| a.set(true));
}

pub fn disarm() -> AllocStats {
    ARMED.with(|a| a.set(false));
    AllocStats {
        max_single: MAX_SINGLE.with(|m| m.get()),
        peak_live: PEAK.with(|m| m.get()),
        count: COUNT.with(|m| m.get()),
    }
}

pub fn pause() -> bool {
    let was = ARMED.with(|a| a.get());
    ARMED.with(|a| a.set(false));
    was
}

pub fn resume(was: bool) {
    ARMED.with(|a| a.set(was));
}

/// "out of proportion" (DESIGN 2.6)
pub fn out_of_proportion(st: &AllocStats, server_bytes: usize) -> Option<String> {
    let single_limit = (1usize << 20) + 16 * server_bytes;
    let live_limit = (64isize << 20) + 64 * server_bytes as isize;
    if st.max_single > single_limit {
        return Some(format!("single allocation of {} bytes after {} server bytes (limit {})", st.max_single, server_bytes, single_limit));
    }
    if st.peak_live > live_limit {
        return Some(format!("live growth {} bytes after {} server bytes (limit {})", st.peak_live, server_bytes, live_limit));
    }
    None
}
