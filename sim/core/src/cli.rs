//! Worker process: runs cases of one scenario, replays or minimises one tape.
//! stdout belongs to the library under test (it println!s); results go to --out files.

use serde_json::{json, Value};
use crate::harness::{self, Outcome, Violation};
use crate::scen::{Env, ScenarioDef};
use crate::tape::Ctx;
use std::cell::RefCell;
use std::collections::{BTreeMap, HashSet};
use std::io::Write;
use std::rc::Rc;
use std::time::Instant;

fn arg<'a>(args: &'a [String], name: &str) -> Option<&'a str> {
    args.iter().position(|a| a == name).and_then(|i| args.get(i + 1)).map(|s| s.as_str())
}
fn flag(args: &[String], name: &str) -> bool {
    args.iter().any(|a| a == name)
}

static CASE_START_MS: std::sync::atomic::AtomicU64 = std::sync::atomic::AtomicU64::new(0);
static CASE_CURRENT: std::sync::atomic::AtomicU64 = std::sync::atomic::AtomicU64::new(0);
static WATCH_EPOCH: std::sync::OnceLock<Instant> = std::sync::OnceLock::new();

struct CaseRun {
    outcome: Outcome,
    ctx: Rc<RefCell<Ctx>>,
    cover: Vec<(&'static str, u64)>,
}

fn run_case(def: &ScenarioDef, ctx: Ctx, case: u64, thorough: bool) -> CaseRun {
    let ctxrc = Rc::new(RefCell::new(ctx));
    let mut env = Env { ctx: ctxrc.clone(), case, thorough, cover: Vec::new() };
    let res = harness::guard(|| (def.run)(&mut env));
    let outcome = match res {
        Ok(o) => o,
        Err(p) => match harness::panic_outcome(&p) {
            // a panic that escaped the scenario's own guards: only SUT panics outside a guard
            // would land here; treat by attribution as usual
            o => o,
        },
    };
    // the context may still be borrowed if a panic unwound through a RefMut: recover
    let cover = std::mem::take(&mut env.cover);
    CaseRun { outcome, ctx: ctxrc, cover }
}

fn tape_json(ctx: &Ctx) -> Value {
    let n = ctx.tape_vals.len();
    let mut v = Vec::with_capacity(n);
    for i in 0..n {
        let label = ctx.tape_labels.get(i).copied().unwrap_or("?");
        v.push(json!([label, ctx.tape_vals[i]]));
    }
    // transport-level stream: third element 1
    for i in 0..ctx.net_vals.len() {
        let label = ctx.net_labels.get(i).copied().unwrap_or("?");
        v.push(json!([label, ctx.net_vals[i], 1]));
    }
    Value::Array(v)
}

fn log_json(ctx: &Ctx, max: usize) -> Value {
    let mut v = Vec::new();
    for e in ctx.log.iter().take(max) {
        v.push(json!(format!("{:>4} {:<10} {}", e.seq, e.kind, e.text)));
    }
    if ctx.log.len() > max {
        v.push(json!(format!("... {} more events", ctx.log.len() - max)));
    }
    Value::Array(v)
}

fn write_u64s(path: &str, vals: impl Iterator<Item = u64>) {
    let mut f = std::io::BufWriter::new(std::fs::File::create(path).expect("create"));
    for v in vals {
        f.write_all(&v.to_le_bytes()).unwrap();
    }
}

fn cmd_run(args: &[String], reg: &[ScenarioDef]) -> i32 {
    let name = arg(args, "--scenario").expect("--scenario");
    let def = reg.iter().find(|d| d.name == name).expect("unknown scenario");
    let seed: u64 = arg(args, "--seed").unwrap_or("20261002").parse().unwrap();
    let from: u64 = arg(args, "--from").unwrap_or("0").parse().unwrap();
    let count: u64 = arg(args, "--count").unwrap_or("1").parse().unwrap();
    let stride: u64 = arg(args, "--stride").unwrap_or("1").parse().unwrap();
    let thorough = flag(args, "--thorough");
    let out = arg(args, "--out").expect("--out").to_string();
    let trace = flag(args, "--trace");
    let max_s: f64 = arg(args, "--max-seconds").unwrap_or("1e18").parse().unwrap();
    let samples_wanted: usize = arg(args, "--samples").unwrap_or("0").parse().unwrap();
    let mut trace_file = if trace { Some(std::fs::File::create(format!("{}.trace", out)).unwrap()) } else { None };

    let start = Instant::now();
    // wall-clock watchdog: a case that runs longer than the limit is a deterministic infinite loop that neither
    // touches the transport (step budget) nor allocates (allocation meter). It never influences a schedule: it only
    // kills the process, after leaving the case number for the supervisor.
    let limit_ms: u64 = arg(args, "--case-timeout-ms").unwrap_or("20000").parse().unwrap();
    {
        let hang_path = format!("{}.hang", out);
        std::thread::spawn(move || loop {
            std::thread::sleep(std::time::Duration::from_millis(200));
            let s = CASE_START_MS.load(std::sync::atomic::Ordering::Relaxed);
            if s != 0 {
                let now = WATCH_EPOCH.get_or_init(Instant::now).elapsed().as_millis() as u64 + 1;
                if now > s + limit_ms {
                    let case = CASE_CURRENT.load(std::sync::atomic::Ordering::Relaxed);
                    let _ = std::fs::write(&hang_path, format!("{}", case));
                    eprintln!("SIM-WATCHDOG case {} exceeded {} ms", case, limit_ms);
                    unsafe { libc::abort() };
                }
            }
        });
    }
    let mut evaluations = 0u64;
    let mut nontrivial = 0u64;
    let mut keys: HashSet<u64> = HashSet::new();
    let mut shapes: HashSet<u64> = HashSet::new();
    let mut faults: BTreeMap<String, u64> = BTreeMap::new();
    let mut probes: BTreeMap<String, u64> = BTreeMap::new();
    let mut cover: BTreeMap<&'static str, HashSet<u64>> = BTreeMap::new();
    let mut steps = 0u64;
    let mut violations: Vec<Value> = Vec::new();
    let mut viol_classes: BTreeMap<String, u64> = BTreeMap::new();
    let mut harness_errors: Vec<Value> = Vec::new();
    let mut samples: Vec<Value> = Vec::new();
    let mut digests: Vec<u64> = Vec::new();
    let want_digests = flag(args, "--digests");
    let mut last_case = from;

    let mut i = 0u64;
    while i < count {
        let case = from + i * stride;
        i += 1;
        last_case = case;
        if let Some(f) = trace_file.as_mut() {
            writeln!(f, "BEGIN {}", case).unwrap();
            f.flush().unwrap();
        }
        CASE_CURRENT.store(case, std::sync::atomic::Ordering::Relaxed);
        CASE_START_MS.store(WATCH_EPOCH.get_or_init(Instant::now).elapsed().as_millis() as u64 + 1, std::sync::atomic::Ordering::Relaxed);
        let mut ctx = Ctx::generate(seed, def.name, case);
        if samples.len() < samples_wanted {
            ctx.log_enabled = true;
        }
        let run = run_case(def, ctx, case, thorough);
        CASE_START_MS.store(0, std::sync::atomic::Ordering::Relaxed);
        evaluations += 1;
        let ctx = run.ctx.borrow();
        steps += ctx.steps;
        shapes.insert(ctx.shape);
        if want_digests {
            digests.push(if ctx.order_dependent { 0x6f72_6465_725f_6470 ^ case as u64 } else { ctx.digest });
        }
        for (k, v) in ctx.faults.iter() {
            *faults.entry(k.to_string()).or_insert(0) += v;
        }
        for (k, v) in ctx.probes.iter() {
            *probes.entry(k.to_string()).or_insert(0) += v;
        }
        for (n, v) in run.cover.iter() {
            cover.entry(n).or_default().insert(*v);
        }
        match &run.outcome {
            Outcome::Pass => {
                if ctx.nontrivial {
                    nontrivial += 1;
                    keys.insert(ctx.key);
                }
                if ctx.log_enabled && samples.len() < samples_wanted && ctx.nontrivial {
                    samples.push(json!({"case": case, "tape_len": ctx.tape_vals.len(), "steps": ctx.steps, "log": log_json(&ctx, arg(args, "--log-lines").unwrap_or("60").parse().unwrap())}));
                }
            }
            Outcome::Violation(v) => {
                let class = v.class();
                let n = viol_classes.entry(class.clone()).or_insert(0);
                *n += 1;
                if *n <= 3 && violations.len() < 200 {
                    violations.push(json!({"case": case, "oracle": v.oracle, "site": v.site, "class": class, "detail": v.detail, "tape": tape_json(&ctx)}));
                }
            }
            Outcome::HarnessError(m) => {
                if harness_errors.len() < 20 {
                    harness_errors.push(json!({"case": case, "message": m, "tape": tape_json(&ctx)}));
                }
            }
        }
        if let Some(f) = trace_file.as_mut() {
            writeln!(f, "END {}", case).unwrap();
        }
        if start.elapsed().as_secs_f64() > max_s {
            break;
        }
    }
    write_u64s(&format!("{}.keys", out), keys.iter().copied());
    write_u64s(&format!("{}.shapes", out), shapes.iter().copied());
    for (n, s) in cover.iter() {
        write_u64s(&format!("{}.cover.{}", out, n), s.iter().copied());
    }
    if want_digests {
        write_u64s(&format!("{}.digests", out), digests.iter().copied());
    }
    let result = json!({
        "scenario": def.name, "property": def.property, "seed": seed, "from": from, "count": count, "stride": stride,
        "last_case": last_case,
        "evaluations": evaluations, "nontrivial": nontrivial, "steps": steps,
        "faults": faults, "probes": probes,
        "cover_names": cover.keys().collect::<Vec<_>>(),
        "violations": violations, "violation_classes": viol_classes,
        "harness_errors": harness_errors, "samples": samples,
        "wall_s": start.elapsed().as_secs_f64(),
    });
    std::fs::write(&out, serde_json::to_vec(&result).unwrap()).unwrap();
    0
}

/// both streams in one vector: [main..., MARK, net...] (the marker cannot be a tape value of interest to minimise)
const MARK: u64 = u64::MAX;

fn load_tape(path: &str) -> (String, Vec<u64>, Value) {
    let v: Value = serde_json::from_slice(&std::fs::read(path).expect("read replay file")).expect("json");
    let scenario = v["scenario"].as_str().expect("scenario").to_string();
    let entries = v["tape"].as_array().expect("tape");
    let mut tape: Vec<u64> = entries.iter().filter(|e| e.get(2).and_then(|x| x.as_u64()).unwrap_or(0) == 0).map(|e| e[1].as_u64().unwrap()).collect();
    let net: Vec<u64> = entries.iter().filter(|e| e.get(2).and_then(|x| x.as_u64()).unwrap_or(0) == 1).map(|e| e[1].as_u64().unwrap()).collect();
    tape.push(MARK);
    tape.extend(net);
    (scenario, tape, v)
}

fn exec_tape(def: &ScenarioDef, tape: &[u64], case: u64, thorough: bool, log: bool) -> (Outcome, Rc<RefCell<Ctx>>) {
    let (main, net): (Vec<u64>, Vec<u64>) = match tape.iter().position(|x| *x == MARK) {
        Some(p) => (tape[..p].to_vec(), tape[p + 1..].to_vec()),
        None => (tape.to_vec(), Vec::new()),
    };
    let mut ctx = Ctx::replay2(main, net);
    ctx.log_enabled = log;
    let r = run_case(def, ctx, case, thorough);
    (r.outcome, r.ctx)
}

fn class_of(o: &Outcome) -> Option<String> {
    match o {
        Outcome::Violation(v) => Some(v.class()),
        _ => None,
    }
}

fn cmd_replay(args: &[String], reg: &[ScenarioDef]) -> i32 {
    let file = arg(args, "--file").expect("--file");
    let out = arg(args, "--out").expect("--out");
    let (scenario, tape, v) = load_tape(file);
    let def = reg.iter().find(|d| d.name == scenario).expect("unknown scenario");
    let case = v["case"].as_u64().unwrap_or(0);
    let thorough = v["thorough"].as_bool().unwrap_or(false);
    let (outcome, ctx) = if let Some(r) = v.get("range").filter(|r| r.is_object()) {
        // the violation needs the history of its worker process (state that survives from case to case inside the
        // code under test): re-run every case that worker ran before, in this one process
        let seed = v["seed"].as_u64().unwrap_or(0);
        let from = r["from"].as_u64().unwrap_or(0);
        let stride = r["stride"].as_u64().unwrap_or(1).max(1);
        let mut c = from;
        while c < case {
            let ctx = Ctx::generate(seed, def.name, c);
            let _ = run_case(def, ctx, c, thorough);
            c += stride;
        }
        let mut ctx = Ctx::generate(seed, def.name, case);
        ctx.log_enabled = true;
        let r = run_case(def, ctx, case, thorough);
        (r.outcome, r.ctx)
    } else if v["regenerate"].as_bool().unwrap_or(false) {
        let mut c = Ctx::generate(v["seed"].as_u64().unwrap_or(0), def.name, case);
        c.log_enabled = true;
        let r = run_case(def, c, case, thorough);
        (r.outcome, r.ctx)
    } else {
        exec_tape(def, &tape, case, thorough, true)
    };
    let ctx = ctx.borrow();
    let (status, viol): (&str, Option<&Violation>) = match &outcome {
        Outcome::Pass => ("pass", None),
        Outcome::Violation(v) => ("violation", Some(v)),
        Outcome::HarnessError(_) => ("harness_error", None),
    };
    let expected = v["violation"]["class"].as_str().map(|s| s.to_string());
    let same = match (&expected, viol) {
        (Some(e), Some(v)) => *e == v.class(),
        _ => false,
    };
    let res = json!({
        "status": status,
        "class": viol.map(|v| v.class()),
        "oracle": viol.map(|v| v.oracle.clone()),
        "site": viol.map(|v| v.site.clone()),
        "detail": match &outcome { Outcome::Violation(v) => v.detail.clone(), Outcome::HarnessError(m) => m.clone(), _ => String::new() },
        "same_class_as_recorded": same,
        "digest": format!("{:016x}", ctx.digest),
        "steps": ctx.steps,
        "log": log_json(&ctx, 400),
    });
    std::fs::write(out, serde_json::to_vec_pretty(&res).unwrap()).unwrap();
    match status {
        "violation" => 1,
        "pass" => 0,
        _ => 2,
    }
}

fn cmd_minimize(args: &[String], reg: &[ScenarioDef]) -> i32 {
    let file = arg(args, "--file").expect("--file");
    let out = arg(args, "--out").expect("--out");
    let (scenario, tape, v) = load_tape(file);
    let def = reg.iter().find(|d| d.name == scenario).expect("unknown scenario");
    let case = v["case"].as_u64().unwrap_or(0);
    let thorough = v["thorough"].as_bool().unwrap_or(false);
    let budget: u32 = arg(args, "--budget").unwrap_or("400").parse().unwrap();
    let (o0, _) = exec_tape(def, &tape, case, thorough, false);
    let target = match class_of(&o0) {
        Some(c) => c,
        None => {
            eprintln!("minimize: the tape does not reproduce a violation");
            return 2;
        }
    };
    let mut best = tape.clone();
    let mut execs = 0u32;
    let mut test = |cand: &[u64], execs: &mut u32| -> bool {
        *execs += 1;
        let (o, _) = exec_tape(def, cand, case, thorough, false);
        class_of(&o).as_deref() == Some(target.as_str())
    };
    // 0. the whole transport-level stream benign?
    if let Some(p) = best.iter().position(|x| *x == MARK) {
        let cand = best[..=p].to_vec();
        if test(&cand, &mut execs) {
            best = cand;
        }
    }
    // 1. cut the suffix of the main stream by bisection (an exhausted tape yields 0 = benign)
    let mark = best.iter().position(|x| *x == MARK).unwrap_or(best.len());
    let tail: Vec<u64> = best[mark..].to_vec();
    let mut lo = 0usize;
    let mut hi = mark;
    while lo < hi && execs < budget {
        let mid = (lo + hi) / 2;
        let cand: Vec<u64> = best[..mid].iter().cloned().chain(tail.iter().cloned()).collect();
        if test(&cand, &mut execs) {
            hi = mid;
        } else {
            lo = mid + 1;
        }
    }
    if hi < mark {
        let cand: Vec<u64> = best[..hi].iter().cloned().chain(tail.iter().cloned()).collect();
        if test(&cand, &mut execs) {
            best = cand;
        }
    }
    // 2. zero blocks, halving the block size
    let mut block = (best.len() / 2).max(1);
    while block >= 1 && execs < budget {
        let mut start = 0;
        while start < best.len() && execs < budget {
            let end = (start + block).min(best.len());
            if best[start..end].iter().any(|x| *x != 0 && *x != MARK) {
                let mut cand = best.clone();
                for x in &mut cand[start..end] {
                    if *x != MARK {
                        *x = 0;
                    }
                }
                if test(&cand, &mut execs) {
                    best = cand;
                }
            }
            start = end;
        }
        if block == 1 {
            break;
        }
        block /= 2;
    }
    // 3. shrink single values
    for i in 0..best.len() {
        if execs >= budget {
            break;
        }
        let mut guard = 0;
        while best[i] > 1 && best[i] != MARK && execs < budget && guard < 8 {
            guard += 1;
            let mut cand = best.clone();
            cand[i] = best[i] / 2;
            if test(&cand, &mut execs) {
                best = cand;
            } else {
                break;
            }
        }
    }
    while best.last() == Some(&0) {
        best.pop();
    }
    if best.last() == Some(&MARK) {
        best.pop();
    }
    let (o, ctx) = exec_tape(def, &best, case, thorough, true);
    let ctx = ctx.borrow();
    let viol = match &o {
        Outcome::Violation(v) => v.clone(),
        _ => {
            eprintln!("minimize: lost the violation");
            return 2;
        }
    };
    let res = json!({
        "property": def.property, "scenario": def.name,
        "seed": v["seed"], "case": case, "thorough": thorough,
        "tape": tape_json(&ctx),
        "original_tape_len": tape.len(), "minimise_executions": execs,
        "violation": {"oracle": viol.oracle, "site": viol.site, "class": viol.class(), "detail": viol.detail},
        "log_digest": format!("{:016x}", ctx.digest),
        "log": log_json(&ctx, 200),
    });
    std::fs::write(out, serde_json::to_vec_pretty(&res).unwrap()).unwrap();
    0
}

pub fn cli_main(reg: Vec<ScenarioDef>) {
    let args: Vec<String> = std::env::args().collect();
    // the library under test prints to stdout; keep it away from the supervisor
    unsafe {
        let devnull = libc::open(b"/dev/null\0".as_ptr() as *const libc::c_char, libc::O_WRONLY);
        if devnull >= 0 && !flag(&args, "--keep-stdout") {
            libc::dup2(devnull, 1);
        }
    }
    // OpenSSL default verify paths: the fixture trust file instead of the system bundle (93 ms -> 2 ms
    // per connect); it is also the trusted / untrusted certificate switch
    if std::env::var_os("VERIF_SIM_ENV").is_none() {
        // must be in the environment the process starts with: re-execute ourselves
        let status = std::process::Command::new(std::env::current_exe().unwrap())
            .args(&args[1..])
            .env("SSL_CERT_FILE", format!("{}/trust.pem", crate::refsrv::server::fixtures_dir()))
            .env("SSL_CERT_DIR", "/nonexistent")
            .env("VERIF_SIM_ENV", "1")
            .status()
            .expect("re-exec");
        std::process::exit(status.code().unwrap_or(2));
    }
    harness::install_panic_hook();
    let cmd = args.get(1).map(|s| s.as_str()).unwrap_or("");
    let code = match cmd {
        "run" => cmd_run(&args, &reg),
        "replay" => cmd_replay(&args, &reg),
        "minimize" => cmd_minimize(&args, &reg),
        "list" => {
            let v: Vec<Value> = reg.iter().map(|d| json!({"property": d.property, "scenario": d.name, "quick_cases": d.quick_cases, "thorough_cases": d.thorough_cases, "needs_tls": d.needs_tls})).collect();
            eprintln!("{}", serde_json::to_string(&v).unwrap());
            0
        }
        _ => {
            eprintln!("usage: sim run|replay|minimize|list ...");
            2
        }
    };
    std::process::exit(code);
}
