//! C15 (AUTHENTICATE tokens verify under an independent MS-NLMP server), C16 (session security),
//! C17 (secrets leave the client only where the chosen mode says they may).

use crate::harness::{err_kind, guard, panic_outcome, viol, Outcome};
use crate::refsrv::build::ServerParams;
use crate::refsrv::ntlm::{self, SealCtx};
use crate::refsrv::strict::ClientMsg;
use crate::refsrv::world::World;
use crate::scen::session::{gen_benign_net, gen_string, make_nla, seed_client_randomness, ClientCfg, Session};
use crate::scen::Env;
use crate::tape::Ctx;
use rdp::nla::ntlm::{NTLMv2SecurityInterface, Ntlm};
use rdp::nla::rc4::Rc4;
use rdp::nla::sspi::{AuthenticationProtocol, GenericSecurityService};

struct Exchange {
    client: Ntlm,
    verified: ntlm::Verified,
}

/// the three-message exchange driven directly; Err(outcome) on any failure
fn exchange(ctx_rc: &crate::harness::SharedCtx, prefix: &str) -> Result<Exchange, Outcome> {
    // an application may keep its authentication object and go through several handshakes with it
    let rounds = if ctx_rc.borrow_mut().chance("second_handshake_same_object", 1, 4) { 2 } else { 1 };
    let mut carried: Option<(Ntlm, ClientCfg, bool)> = None;
    let mut last = None;
    for round in 0..rounds {
        if round == 1 { ctx_rc.borrow_mut().probe("second_handshake_on_same_object"); }
        let ex = exchange_once(ctx_rc, prefix, carried.take())?;
        carried = Some((ex.0, ex.2.clone(), ex.3));
        last = Some(ex.1);
    }
    let (client, _, _) = carried.unwrap();
    Ok(Exchange { client, verified: last.unwrap() })
}

/// one NEGOTIATE / CHALLENGE / AUTHENTICATE exchange; `reuse` = the client object (and its account) of a previous one
fn exchange_once(ctx_rc: &crate::harness::SharedCtx, prefix: &str, reuse: Option<(Ntlm, ClientCfg, bool)>) -> Result<(Ntlm, ntlm::Verified, ClientCfg, bool), Outcome> {
    let mut oversize = false;
    let (cfg, nla, oem, use_hash) = {
        let mut ctx = ctx_rc.borrow_mut();
        let mut cfg = ClientCfg::plain();
        let oem = ctx.chance("oem", 1, 6);
        cfg.domain = gen_string(&mut ctx, "domain", 40, !oem);
        // any character: the verifier knows both mappings that UpperCase(User) stands for (refsrv::ntlm::upper_case_variants)
        cfg.user = gen_string(&mut ctx, "user", 64, !oem);
        cfg.password = gen_string(&mut ctx, "password", 64, true);
        if ctx.chance("long_password", 1, 16) {
            let n = *ctx.pick("long_password_len", &[127usize, 128, 129, 255, 256, 257, 300, 1000]);
            let c = *ctx.pick("long_password_char", &['x', 'é', '語', '😀']);
            cfg.password = std::iter::repeat(c).take(n).collect();
        }
        // sizes at the edge of the 16-bit length fields of the AUTHENTICATE message: a name of 32768 UTF-16 units no
        // longer fits; the client may refuse, it must not emit a token whose fields lie about themselves
        let huge = reuse.is_none() && ctx.chance("sizes_at_the_16_bit_edge", 1, 30);
        let mut huge_target_info: Option<usize> = None;
        if huge {
            oversize = true;
            match ctx.choose("huge_what", 3) {
                0 => { let n = *ctx.pick("huge_user_len", &[32766usize, 32767, 32768, 32769, 40000]); cfg.user = "U".repeat(n); }
                1 => { let n = *ctx.pick("huge_domain_len", &[32766usize, 32767, 32768, 32769, 40000]); cfg.domain = "d".repeat(n); }
                _ => { huge_target_info = Some(65535 - ctx.choose("huge_ti_short_of_max", 60) as usize); }
            }
            ctx.probe("sizes_at_the_16_bit_edge");
        }
        let mut use_hash = ctx.chance("use_hash", 1, 3);
        if let Some((_, c, h)) = &reuse {
            cfg = c.clone();
            use_hash = *h;
        }
        if cfg.user.len() >= 32760 || cfg.domain.len() >= 32760 {
            // (also when the account comes from an earlier handshake of the same object)
            oversize = true;
        }
        // OEM strings are only defined for ASCII here
        let oem = oem && cfg.domain.is_ascii() && cfg.user.is_ascii();
        seed_client_randomness(&mut ctx);
        let mut nla = make_nla(&mut ctx, &cfg);
        if let Some(total) = huge_target_info {
            // one more AV pair (a DNS tree name of odd size) brings the TargetInfo block to `total` octets
            let now: usize = nla.challenge_cfg.av_pairs.iter().map(|(_, v)| 4 + v.len()).sum::<usize>() + 4;
            if total > now + 4 {
                let fill = total - now - 4;
                nla.challenge_cfg.av_pairs.retain(|(id, _)| *id != 5);
                let now2: usize = nla.challenge_cfg.av_pairs.iter().map(|(_, v)| 4 + v.len()).sum::<usize>() + 4;
                let fill = if now2 != now { total - now2 - 4 } else { fill };
                nla.challenge_cfg.av_pairs.insert(0, (5, vec![0x61; fill]));
            }
        }
        // a server may also announce 56-bit support next to 128 (128 wins)
        if ctx.chance("negotiate_56_too", 1, 6) {
            nla.challenge_cfg.extra_flags |= ntlm::NEG_56;
            ctx.probe("negotiate_56_with_128");
        }
        ctx.key_add(oem as u64 | (use_hash as u64) << 1 | (nla.challenge_cfg.with_version as u64) << 2 | (nla.challenge_cfg.target_info_first as u64) << 3);
        ctx.key_add(nla.challenge_cfg.av_pairs.len() as u64);
        ctx.key_add(cfg.user.chars().count() as u64);
        ctx.key_add(cfg.password.chars().count() as u64 / 4);
        (cfg, nla, oem, use_hash)
    };
    let nt = ntlm::nt_hash(&cfg.password);
    let cfg2 = cfg.clone();
    let reused = reuse.map(|r| r.0);
    let r = guard(move || {
        let mut client = match reused {
            Some(c) => c,
            None => if use_hash { Ntlm::from_hash(cfg2.domain.clone(), cfg2.user.clone(), &nt) } else { Ntlm::new(cfg2.domain.clone(), cfg2.user.clone(), cfg2.password.clone()) },
        };
        let neg = client.create_negotiate_message();
        (client, neg)
    });
    let (mut client, neg_raw) = match r {
        Err(p) => return Err(panic_outcome(&p)),
        Ok((c, Ok(n))) => (c, n),
        Ok((_, Err(e))) => return Err(viol(&format!("{}/negotiate", prefix), &err_kind(&e), "create_negotiate_message failed".to_string())),
    };
    let neg = match ntlm::parse_negotiate(&neg_raw) {
        Ok(n) => n,
        Err(e) => return Err(viol(&format!("{}/negotiate-token", prefix), e.split(':').next().unwrap_or("?"), format!("NEGOTIATE rejected by the reference parser: {}", e))),
    };
    let mut challenge = ntlm::build_challenge(&neg, &nla.challenge_cfg);
    if oem {
        // a server that negotiates OEM strings instead of Unicode
        challenge[20] = (challenge[20] & !0x01) | 0x02;
        ctx_rc.borrow_mut().probe("oem_negotiated");
    }
    if ctx_rc.borrow_mut().chance("domain_target", 1, 5) {
        // the authentication target is a domain, not a stand-alone server (NTLMSSP_TARGET_TYPE_DOMAIN)
        challenge[22] = (challenge[22] & !0x02) | 0x01;
        ctx_rc.borrow_mut().probe("target_type_domain");
    }
    let ch2 = challenge.clone();
    let r = guard(|| client.read_challenge_message(&ch2));
    rdp::model::rnd::verif::install(None);
    let auth_raw = match r {
        Err(p) => return Err(panic_outcome(&p)),
        Ok(Ok(a)) => a,
        Ok(Err(e)) => {
            if oversize && err_kind(&e).contains("InvalidSize") {
                // refusal of what cannot be expressed is the right answer; nothing to verify
                ctx_rc.borrow_mut().probe("oversize_refused");
                return Err(Outcome::Pass);
            }
            return Err(viol(&format!("{}/challenge-refused", prefix), &err_kind(&e), format!("the client refused a conforming CHALLENGE: {}", err_kind(&e))));
        }
    };
    ctx_rc.borrow_mut().ev("drv", format!("AUTHENTICATE {} bytes {}", auth_raw.len(), crate::tape::hex_short(&auth_raw)));
    let auth = match ntlm::parse_authenticate(&auth_raw) {
        Ok(a) => a,
        Err(e) => return Err(viol(&format!("{}/authenticate-layout", prefix), e.split(':').next().unwrap_or("?"), format!("AUTHENTICATE layout rejected: {} (hash mode {}, oem {})", e, use_hash, oem))),
    };
    if auth.mic.is_none() {
        return Err(viol(&format!("{}/authenticate-layout", prefix), "no-mic", "AUTHENTICATE carries no MIC".to_string()));
    }
    match ntlm::verify_authenticate(&neg, &challenge, &nla.challenge_cfg, &auth, &nt) {
        Ok(v) => {
            if v.user != cfg.user || v.domain != cfg.domain {
                return Err(viol(&format!("{}/identity", prefix), "user-or-domain", format!("token names {:?}\\{:?}, configured {:?}\\{:?}", v.domain, v.user, cfg.domain, cfg.user)));
            }
            if v.upper_variants > 1 && !oem {
                // the user name has two readings of UpperCase(User) and the verifier takes either; an account data base
                // holds one: the same account reached from the password and from its NT hash must use the same one
                ctx_rc.borrow_mut().probe("user_name_with_two_upper_case_readings");
                rdp::model::rnd::verif::install(Some(Box::new(|n| vec![0x5a; n])));
                let (d, u, pw) = (cfg.domain.clone(), cfg.user.clone(), cfg.password.clone());
                let ch3 = challenge.clone();
                let r = guard(move || {
                    let mut twin = if use_hash { Ntlm::new(d, u, pw) } else { Ntlm::from_hash(d, u, &nt) };
                    let n = twin.create_negotiate_message();
                    let a = twin.read_challenge_message(&ch3);
                    (n, a)
                });
                rdp::model::rnd::verif::install(None);
                if let Ok((Ok(n2), Ok(a2))) = r {
                    if let (Ok(neg2), Ok(auth2)) = (ntlm::parse_negotiate(&n2), ntlm::parse_authenticate(&a2)) {
                        match ntlm::verify_authenticate(&neg2, &challenge, &nla.challenge_cfg, &auth2, &nt) {
                            Ok(v2) if v2.upper_variant == v.upper_variant => {}
                            Ok(_) => return Err(viol(&format!("{}/hash-and-password-differ", prefix), "upper-case", format!("user {:?}: the proof made from the password and the proof made from its NT hash use different readings of UpperCase(User); no account data base verifies both", cfg.user))),
                            Err(e) => return Err(viol(&format!("{}/verifier-rejects", prefix), e.split(':').next().unwrap_or("?"), format!("independent MS-NLMP verification of the other mode (hash mode {}) failed: {}", !use_hash, e))),
                        }
                    }
                }
            }
            Ok((client, v, cfg, use_hash))
        }
        Err(e) => Err(viol(&format!("{}/verifier-rejects", prefix), e.split(':').next().unwrap_or("?"), format!("independent MS-NLMP verification failed: {} (hash mode {}, oem {}, version {}, target info first {})", e, use_hash, oem, nla.challenge_cfg.with_version, nla.challenge_cfg.target_info_first))),
    }
}

pub fn run_c15(env: &mut Env) -> Outcome {
    let ctxrc = env.ctx.clone();
    match exchange(&ctxrc, "c15") {
        Ok(_) => {
            ctxrc.borrow_mut().nontrivial = true;
            Outcome::Pass
        }
        Err(o) => o,
    }
}

// ------------------------------------------------------------------------------------------------ C16

fn gen_msg(ctx: &mut Ctx) -> Vec<u8> {
    let n = match ctx.choose("msg_len_c", 24) { 0..=4 => 0, 5..=9 => 1, 10..=14 => ctx.choose("msg_len_s", 40) as usize, 15..=18 => 2048, 19..=22 => ctx.choose("msg_len", 2049) as usize, _ => *ctx.pick("msg_len_big", &[4095usize, 4096, 16383, 16384, 65535, 65536, 70000]) };
    let a = ctx.choose("msg_fill", 256) as u8;
    (0..n).map(|i| a.wrapping_add(i as u8).rotate_left(3)).collect()
}

pub fn run_c16(env: &mut Env) -> Outcome {
    let ctxrc = env.ctx.clone();
    // the SUT context and the two reference contexts (a reference "client" for byte identity, a reference "server" as peer)
    let derived = ctxrc.borrow_mut().chance("context_from_exchange", 1, 2);
    let (mut sut, mut ref_client, mut ref_server): (Box<dyn GenericSecurityService>, SealCtx, SealCtx);
    if derived {
        let ex = match exchange(&ctxrc, "c16") {
            Ok(e) => e,
            Err(o) => return o,
        };
        let c = ex.client;
        sut = match guard(move || c.build_security_interface()) { Ok(s) => s, Err(p) => return panic_outcome(&p) };
        ref_client = SealCtx::new(&ex.verified.exported_session_key, false);
        ref_server = SealCtx::new(&ex.verified.exported_session_key, true);
        ctxrc.borrow_mut().probe("context_from_real_exchange");
    } else {
        let (k1, k2, s1, s2) = {
            let mut ctx = ctxrc.borrow_mut();
            let l1 = 1 + ctx.choose("k1_len", 32) as usize;
            let l2 = 1 + ctx.choose("k2_len", 32) as usize;
            (ctx.bytes("k1", l1), ctx.bytes("k2", l2), ctx.bytes("s1", 16), ctx.bytes("s2", 16))
        };
        let mut a1 = [0u8; 16];
        a1.copy_from_slice(&s1);
        let mut a2 = [0u8; 16];
        a2.copy_from_slice(&s2);
        sut = Box::new(NTLMv2SecurityInterface::new(Rc4::new(&k1), Rc4::new(&k2), s1.clone(), s2.clone()));
        ref_client = SealCtx::from_keys(&k1, &k2, a1, a2);
        ref_server = SealCtx::from_keys(&k2, &k1, a2, a1);
    }
    let _ = &mut ref_client;
    // one case in 4000: a conversation in which the sequence numbers of both directions pass 16 bits (the messages and
    // their direction then follow from the position, not from the tape, to keep the replay file small)
    let very_long = ctxrc.borrow_mut().chance("very_long_history", 1, 4000);
    if very_long { ctxrc.borrow_mut().probe("history_beyond_65536_messages"); }
    let n = { let mut ctx = ctxrc.borrow_mut(); if very_long { 2 * 0x10000 + 600 + ctx.choose("n_messages_very_long", 64) as usize } else if ctx.chance("long_history", 1, 40) { 250 + ctx.choose("n_messages_long", 60) as usize } else { 1 + ctx.choose("n_messages", 30) as usize } };
    let fault_at = if ctxrc.borrow_mut().chance("inject_fault", 3, 4) { Some(ctxrc.borrow_mut().choose("fault_at", n as u64) as usize) } else { None };
    let mut earlier: Vec<Vec<u8>> = Vec::new();
    for k in 0..n {
        let (to_sut, msg) = if very_long && fault_at != Some(k) {
            (k % 2 == 1, vec![k as u8; k % 3])
        } else {
            let mut ctx = ctxrc.borrow_mut(); (ctx.chance("towards_sut", 1, 2) || fault_at == Some(k), gen_msg(&mut ctx))
        };
        if !to_sut {
            // SUT seals: must be byte-identical with the reference sealing at the same position in the history
            let m2 = msg.clone();
            let out = match guard(|| sut.gss_wrapex(&m2)) { Ok(Ok(o)) => o, Ok(Err(e)) => return viol("c16/wrap-error", &err_kind(&e), "gss_wrapex failed".to_string()), Err(p) => return panic_outcome(&p) };
            let want = ref_client.seal(&msg);
            if out != want {
                let site = if out.len() != want.len() { "length" } else if out[..4] != want[..4] { "version" } else if out[12..16] != want[12..16] { "sequence-number" } else if out[16..] != want[16..] { "ciphertext" } else { "checksum" };
                return viol("c16/sealing-differs", site, format!("message #{} ({} bytes): sealed bytes differ from MS-NLMP sealing in the {} (got {} want {})", k, msg.len(), site, crate::tape::hex_short(&out), crate::tape::hex_short(&want)));
            }
            // and the reference peer can open it
            match ref_server.unseal(&out) {
                Ok(p) if p == msg => {}
                other => return viol("c16/peer-cannot-unseal", "reference-peer", format!("message #{}: reference peer result {:?}", k, other.map(|p| p.len()))),
            }
        } else {
            let mut sealed = ref_server.seal(&msg);
            let mut tampered: Option<String> = None;
            if fault_at == Some(k) {
                let mut ctx = ctxrc.borrow_mut();
                let kind = ctx.choose("tamper_kind", 6);
                match kind {
                    0 | 1 => {
                        let bit = if env.thorough && env.case % 2 == 0 { (env.case / 2) as usize % (sealed.len() * 8) } else { ctx.choose("tamper_bit", (sealed.len() * 8) as u64) as usize };
                        sealed[bit / 8] ^= 1 << (bit % 8);
                        let region = if bit / 8 < 4 { "version" } else if bit / 8 < 12 { "checksum" } else if bit / 8 < 16 { "sequence-number" } else { "ciphertext" };
                        ctx.fault("bitflip");
                        ctx.key_str(region);
                        tampered = Some(format!("bitflip/{}", region));
                    }
                    2 => {
                        let at = ctx.choose("tamper_trunc", sealed.len() as u64) as usize;
                        sealed.truncate(at);
                        ctx.fault("truncate");
                        tampered = Some(format!("truncated/{}", if at < 16 { "inside-signature" } else { "inside-ciphertext" }));
                    }
                    3 => {
                        let k2 = 1 + ctx.choose("tamper_ext", 8) as usize;
                        sealed.extend(std::iter::repeat(0x5a).take(k2));
                        ctx.fault("extend");
                        tampered = Some("extended".into());
                    }
                    4 => {
                        if let Some(old) = earlier.first() {
                            if *old != sealed {
                                sealed = old.clone();
                                ctx.fault("replay");
                                tampered = Some("replay-of-earlier-message".into());
                            }
                        }
                    }
                    _ => {
                        // swap: deliver the *next* message first
                        let next = ref_server.seal(&[msg.clone(), vec![1]].concat());
                        sealed = next;
                        ctx.fault("swap");
                        tampered = Some("out-of-order".into());
                    }
                }
                if let Some(t) = &tampered { ctx.ev("fault", format!("message #{} towards the client: {}", k, t)); }
            }
            earlier.push(sealed.clone());
            let s2 = sealed.clone();
            let res = match guard(|| sut.gss_unwrapex(&s2)) { Ok(r) => r, Err(p) => return panic_outcome(&p) };
            match (&tampered, res) {
                (None, Ok(p)) => {
                    if p != msg {
                        return viol("c16/unseal-wrong-plaintext", "untouched-message", format!("message #{}: {} plaintext bytes returned, {} sealed", k, p.len(), msg.len()));
                    }
                }
                (None, Err(e)) => return viol("c16/unseal-refused", &err_kind(&e), format!("message #{} ({} bytes) from a conforming peer was refused: {}", k, msg.len(), err_kind(&e))),
                (Some(t), Ok(p)) => return viol("c16/tampering-accepted", t, format!("message #{}: {} was accepted and yielded {} plaintext bytes", k, t, p.len())),
                (Some(_), Err(_)) => {
                    let mut ctx = ctxrc.borrow_mut();
                    ctx.probe("tampering_rejected");
                    ctx.key_add(k as u64);
                    ctx.nontrivial = true;
                    return Outcome::Pass;
                }
            }
        }
    }
    let mut ctx = ctxrc.borrow_mut();
    ctx.key_add(n as u64);
    ctx.nontrivial = true;
    Outcome::Pass
}

// ------------------------------------------------------------------------------------------------ C17

fn contains(hay: &[u8], needle: &[u8]) -> bool {
    !needle.is_empty() && hay.len() >= needle.len() && hay.windows(needle.len()).any(|w| w == needle)
}

pub fn run_c17(env: &mut Env) -> Outcome {
    let ctxrc = env.ctx.clone();
    let (cfg, params, net, marker) = {
        let mut ctx = ctxrc.borrow_mut();
        let mut cfg = ClientCfg::plain();
        // all 32 mode combinations, walked by the case number
        let m = if env.thorough || env.case < 4096 { env.case % 32 } else { ctx.choose("modes", 32) };
        cfg.nla = m & 1 != 0;
        cfg.restricted = m & 2 != 0;
        cfg.blank = m & 4 != 0;
        cfg.auto_logon = m & 8 != 0;
        cfg.use_hash = m & 16 != 0;
        cfg.builder_order = ctx.choose("builder_order", 3) as u8;
        let marker: String = (0..12).map(|_| (b'A' + ctx.choose("marker", 26) as u8) as char).collect();
        cfg.domain = gen_string(&mut ctx, "domain", 24, true);
        cfg.user = gen_string(&mut ctx, "user", 24, true);
        cfg.password = format!("{}{}{}", gen_string(&mut ctx, "pw_pre", 8, true), marker, gen_string(&mut ctx, "pw_post", 8, true));
        let selected = if cfg.nla { 2 } else { 1 };
        let params = if ctx.chance("params_gen", 1, 2) { ServerParams::generate(&mut ctx, selected) } else { ServerParams::default_for(selected) };
        let net = gen_benign_net(&mut ctx);
        ctx.step_budget = 200_000;
        ctx.key_add(m);
        ctx.key_add(params.version as u64);
        (cfg, params, net, marker)
    };
    env.cover.push(("mode_combination", (cfg.nla as u64) | (cfg.restricted as u64) << 1 | (cfg.blank as u64) << 2 | (cfg.auto_logon as u64) << 3 | (cfg.use_hash as u64) << 4));
    let world = World::new(ctxrc.clone(), params.clone(), net);
    // a server is free not to echo NTLMSSP_NEGOTIATE_SEAL; the credentials must be sealed all the same
    let no_seal = cfg.nla && ctxrc.borrow_mut().chance("challenge_without_seal", 1, 6);
    let nla_res = if cfg.nla { Some(crate::scen::install_nla_custom(&world, &cfg, |n| { if no_seal { n.challenge_flags_clear = 0x20; } })) } else { None };
    if no_seal { ctxrc.borrow_mut().probe("challenge_without_seal"); }
    world.server.borrow_mut().keep_frames = true;
    let mut connector = cfg.connector();
    if ctxrc.borrow_mut().chance("earlier_failed_connection", 1, 6) {
        // the same Connector was used before, for a connection that failed after the Client Info (licence refused
        // or link lost): the options chosen by the application must survive that
        let mut pp = ServerParams::default_for(if cfg.nla { 2 } else { 1 });
        let lost_link = ctxrc.borrow_mut().chance("earlier_link_lost", 1, 2);
        if !lost_link {
            pp.license_error_code = 2;
            pp.license_state_transition = 1;
        }
        let pworld = World::new(ctxrc.clone(), pp, crate::wire::NetCfg::benign());
        if cfg.nla {
            crate::scen::install_nla(&pworld, &cfg);
        }
        if lost_link {
            // the server goes away instead of sending the licence
            pworld.server.borrow_mut().mutator = Some(Box::new(|_ctx: &mut Ctx, name: &str, _w: &crate::refsrv::bytes::Wr| {
                if name == "license" { crate::refsrv::server::MutOut::BytesThenFin(Vec::new()) } else { crate::refsrv::server::MutOut::Unchanged }
            }));
        }
        match Session::connect_with(pworld, &cfg, &mut connector) {
            Ok(mut s0) => {
                // the refusal comes out of connect(), or of the read that takes the licence PDU
                if s0.connect_result.is_ok() && matches!(s0.drain(8), Ok(Ok(()))) {
                    return viol("c17/session-not-established", "earlier-connection", "the earlier connection was meant to fail at licensing but succeeded".to_string());
                }
            }
            Err(o) => return o,
        }
        ctxrc.borrow_mut().probe("earlier_failed_connection_same_connector");
    }
    let mut s = match Session::connect_with(World { ctx: world.ctx.clone(), wire: world.wire.clone(), cfg: world.cfg.clone(), server: world.server.clone() }, &cfg, &mut connector) {
        Ok(s) => s,
        Err(o) => return o,
    };
    rdp::model::rnd::verif::install(None);
    if let Err(k) = &s.connect_result {
        let stage = nla_res.as_ref().map(|r| r.borrow().stage).unwrap_or(0);
        if no_seal && stage == 1 && world.server.borrow().app_in_total == nla_res.as_ref().map(|r| r.borrow().negotiate_ts_len).unwrap_or(0) {
            // the client stopped at the CHALLENGE that does not grant NTLMSSP_NEGOTIATE_SEAL and sent nothing more:
            // no secret has left it
            ctxrc.borrow_mut().probe("challenge_without_seal_refused");
            return Outcome::Pass;
        }
        return viol("c17/session-not-established", "connect", format!("connect failed: {}", k));
    }
    match s.activate(40) {
        Err(o) => return o,
        Ok(Err(k)) => return viol("c17/session-not-established", "activation", k),
        Ok(Ok(())) => {}
    }
    let _ = s.shutdown();
    world.pump();
    let srv = world.server.borrow();
    // 1. negotiation request announces the mode
    for (_, _, m) in srv.history.iter() {
        match m {
            ClientMsg::ConnectionRequest { flags, .. } => {
                if (*flags & 1 != 0) != cfg.restricted {
                    return viol("c17/mode-flag", "RESTRICTED_ADMIN_MODE_REQUIRED", format!("request flags {:#x}, restricted admin configured: {}", flags, cfg.restricted));
                }
            }
            ClientMsg::Info { info, .. } => {
                let (d, u, p) = if cfg.restricted { (String::new(), String::new(), String::new()) } else { (cfg.domain.clone(), cfg.user.clone(), cfg.password.clone()) };
                if info.domain != d || info.user != u {
                    return viol("c17/client-info", "domain-or-user", format!("Client Info carries {:?}\\{:?}, mode implies {:?}\\{:?}", info.domain, info.user, d, u));
                }
                if info.password != p {
                    return viol("c17/client-info", if cfg.restricted { "password-not-blanked" } else { "password-differs" }, format!("Client Info password has {} characters, mode implies {} (restricted {}, blank {})", info.password.chars().count(), p.chars().count(), cfg.restricted, cfg.blank));
                }
                if (info.flags & 0x8 != 0) != cfg.auto_logon {
                    return viol("c17/auto-logon-flag", if cfg.auto_logon { "missing" } else { "set-unrequested" }, format!("INFO_AUTOLOGON={} requested={}", info.flags & 0x8 != 0, cfg.auto_logon));
                }
            }
            _ => {}
        }
    }
    // 2. TSCredentials
    let pw16 = ntlm::utf16le(&marker);
    let pw8 = marker.as_bytes().to_vec();
    if let Some(r) = &nla_res {
        let r = r.borrow();
        match &r.credentials {
            Some(Ok(c)) => {
                let empty = cfg.restricted || cfg.blank;
                let (d, u) = if empty { (Vec::new(), Vec::new()) } else { (ntlm::utf16le(&cfg.domain), ntlm::utf16le(&cfg.user)) };
                if c.domain != d || c.user != u {
                    return viol("c17/tscredentials", if empty { "names-not-emptied" } else { "names-differ" }, format!("TSCredentials domain {}B user {}B, mode implies {}B / {}B", c.domain.len(), c.user.len(), d.len(), u.len()));
                }
                let full = ntlm::utf16le(&cfg.password);
                let ok = if empty { c.password.is_empty() } else if cfg.use_hash { c.password.is_empty() || c.password == full } else { c.password == full };
                if !ok {
                    return viol("c17/tscredentials", if empty { "password-not-emptied" } else { "password-differs" }, format!("TSCredentials password {}B (restricted {}, blank {}, hash {})", c.password.len(), cfg.restricted, cfg.blank, cfg.use_hash));
                }
            }
            other => return viol("c17/tscredentials", "unreadable", format!("{:?}", other.as_ref().map(|r| r.as_ref().map(|_| ()).map_err(|e| e.clone())))),
        }
        // the password must not be in any NTLM token nor in the pubKeyAuth plaintext
        for (name, bytes) in [("NEGOTIATE", &r.negotiate_raw), ("AUTHENTICATE", &r.auth_raw)] {
            if contains(bytes, &pw16) || contains(bytes, &pw8) {
                return viol("c17/secret-leak", name, format!("the password marker appears in the NTLM {} token", name));
            }
        }
        if let Some(first) = r.unsealed_plaintexts.first() {
            if contains(first, &pw16) || contains(first, &pw8) {
                return viol("c17/secret-leak", "pubKeyAuth", "the password marker appears in the pubKeyAuth plaintext".to_string());
            }
        }
    }
    // 3. nowhere else: raw transport, every decrypted PDU other than the Client Info
    let wire = world.wire.borrow();
    if contains(&wire.c2s_all, &pw16) || contains(&wire.c2s_all, &pw8) {
        return viol("c17/secret-leak", "raw-transport", "the password marker appears on the raw transport".to_string());
    }
    for (i, (is_info, f)) in srv.frames.iter().enumerate() {
        if *is_info {
            continue;
        }
        if contains(f, &pw16) || contains(f, &pw8) {
            return viol("c17/secret-leak", "other-pdu", format!("the password marker appears in client frame #{} ({} bytes), which is not the Client Info PDU", i, f.len()));
        }
    }
    ctxrc.borrow_mut().nontrivial = true;
    Outcome::Pass
}
