//! C05 / C06 / C07 — hostile server bytes never crash the client.
//! Oracle (all three): the call under test returns (Ok or Err): no panic attributed to the library,
//! no abort, no step / wall-clock budget exceeded, no allocation out of proportion.

use crate::alloc;
use crate::harness::{err_kind, guard, panic_outcome, viol, Outcome};
use crate::refsrv::build::{self, ServerParams};
use crate::refsrv::bytes::Wr;
use crate::refsrv::mutate::{self, After};
use crate::refsrv::server::{MutOut, Packing};
use crate::refsrv::world::World;
use crate::scen::session::{establish, gen_benign_net, ClientCfg, Session};
use crate::scen::Env;
use crate::tape::Ctx;
use std::cell::RefCell;
use std::rc::Rc;

fn apply(ctx: &mut Ctx, name: &str, w: &Wr, descs: &Rc<RefCell<Vec<String>>>) -> MutOut {
    let m = mutate::mutate(ctx, name, w);
    ctx.fault(m.kind);
    ctx.key_str(m.kind);
    ctx.key_str(&m.desc);
    ctx.ev("fault", format!("{}: {}", m.kind, m.desc));
    descs.borrow_mut().push(format!("{}:{}", m.kind, m.desc));
    match m.after {
        After::Nothing => MutOut::Bytes(m.bytes),
        After::Fin => MutOut::BytesThenFin(m.bytes),
        After::Silence => MutOut::BytesThenSilence(m.bytes),
    }
}

fn check_resources(prefix: &str, ctxrc: &crate::harness::SharedCtx, st: &alloc::AllocStats, server_bytes: usize, what: &str) -> Option<Outcome> {
    if ctxrc.borrow().budget_exceeded {
        return Some(viol(&format!("{}/spin", prefix), what, format!("step budget exhausted during {} (the client kept calling the transport without end)", what)));
    }
    if let Some(msg) = alloc::out_of_proportion(st, server_bytes) {
        return Some(viol(&format!("{}/allocation", prefix), what, format!("{}: {}", what, msg)));
    }
    None
}

// ------------------------------------------------------------------------------------------------ C05

pub fn run_c05(env: &mut Env) -> Outcome {
    let ctxrc = env.ctx.clone();
    let (cfg, params, net, t1, t2) = {
        let mut ctx = ctxrc.borrow_mut();
        let mut cfg = ClientCfg::plain();
        cfg.nla = ctx.chance("nla", 1, 4);
        let selected = if cfg.nla { 2 } else { 1 };
        let params = if ctx.chance("params_gen", 1, 2) { ServerParams::generate(&mut ctx, selected) } else { ServerParams::default_for(selected) };
        let mut params = params;
        if ctx.chance("hostile_domain_params", 1, 6) {
            let i = ctx.choose("dp_index", 8) as usize;
            params.domain_params[i] = *ctx.pick("dp_value", &[0u32, 1, 2, 7, 8, 9, 0x7f, 0x80, 0xff, 0x100, 0xffff, 0x10000, 0x7fffffff, 0xffffffff]);
            ctx.fault("hostile_domain_parameter");
        }
        if ctx.chance("license_refusal", 1, 8) {
            // a licence refusal (any defined error code / transition other than the accepted pair) with its blob
            params.license_kind = 1;
            params.license_error_code = *ctx.pick("lic_code", &[1u32, 2, 3, 4, 6, 8, 0xb, 0xc, 7]);
            params.license_state_transition = *ctx.pick("lic_transition", &[1u32, 2, 3, 4]);
            ctx.fault("license_refusal");
        }
        if ctx.chance("license_other_kind", 1, 3) {
            params.license_kind = 2 + ctx.choose("license_kind_x", 3) as u8;
        }
        let net = gen_benign_net(&mut ctx);
        // which of the six setup messages gets hurt (weights favour the big ones)
        let t1 = *ctx.pick("target", &[1usize, 1, 1, 5, 5, 0, 2, 3, 4, 1, 5, 0]);
        let t2 = if ctx.chance("second_fault", 1, 4) { Some(ctx.choose("target2", 6) as usize) } else { None };
        ctx.step_budget = 60_000;
        ctx.key_add(t1 as u64);
        (cfg, params, net, t1, t2)
    };
    let flood = {
        let mut ctx = ctxrc.borrow_mut();
        if ctx.chance("channel_flood", 1, 40) {
            let chan = 1004 + ctx.choose("flood_chan", 8) as u16;
            let n = *ctx.pick("flood_n", &[3usize, 40, 2000, 30000, 150000]);
            ctx.fault("channel_flood");
            ctx.key_add(n as u64);
            ctx.step_budget = 8_000_000;
            Some((chan, n))
        } else {
            None
        }
    };
    let mut params = params;
    if let Some((chan, _)) = flood {
        params.announced_channels = vec![chan];
        if params.io_channel == chan || params.user_id == chan { params.announced_channels = vec![chan + 20]; }
    }
    let world = World::new(ctxrc.clone(), params.clone(), net);
    if let Some((_, n)) = flood {
        let c = params.announced_channels[0];
        world.server.borrow_mut().pre_license_flood = Some((c, n));
    }
    if cfg.nla {
        crate::scen::install_nla(&world, &cfg);
    }
    let descs: Rc<RefCell<Vec<String>>> = Rc::new(RefCell::new(Vec::new()));
    {
        let d2 = descs.clone();
        let mut count = 0usize;
        let mut srv = world.server.borrow_mut();
        srv.packing = Packing::OnePerRecord;
        srv.mutator = Some(Box::new(move |ctx: &mut Ctx, name: &str, w: &Wr| {
            if name.starts_with("cssp") || name == "tsrequest" {
                return MutOut::Unchanged;
            }
            let idx = count;
            count += 1;
            if idx == t1 || Some(idx) == t2 {
                if name == "channel-join-confirm" {
                    // which of the two joins this confirm answers follows the client's HashMap order, and what the client
                    // makes of the damaged confirm may depend on it: the run is judged as always, but it is not bit-for-bit
                    // repeatable and is kept out of the determinism proof (DESIGN 13.3)
                    ctx.order_dependent = true;
                    ctx.probe("join_confirm_damaged_order_dependent");
                }
                apply(ctx, name, w, &d2)
            } else {
                MutOut::Unchanged
            }
        }));
    }
    alloc::arm();
    let s = Session::connect(World { ctx: world.ctx.clone(), wire: world.wire.clone(), cfg: world.cfg.clone(), server: world.server.clone() }, &cfg);
    let st = alloc::disarm();
    let s = match s {
        Ok(s) => s,
        Err(o) => return o,
    };
    let total = world.wire.borrow().s2c_total;
    if let Some(o) = check_resources("c05", &ctxrc, &st, total, "connect") {
        return o;
    }
    let fired = !descs.borrow().is_empty() || flood.is_some();
    let mut ctx = ctxrc.borrow_mut();
    ctx.ev("drv", format!("connect outcome {:?}; max single allocation {} bytes", s.connect_result, st.max_single));
    if s.connect_result.is_ok() {
        ctx.probe("connect_ok_despite_fault");
    }
    ctx.nontrivial = fired;
    Outcome::Pass
}

// ------------------------------------------------------------------------------------------------ C05 direct parser entries

pub fn run_c05_direct(env: &mut Env) -> Outcome {
    use std::io::Cursor;
    let ctxrc = env.ctx.clone();
    let (entry, data) = {
        let mut ctx = ctxrc.borrow_mut();
        let entry = ctx.choose("entry", 8);
        // input: short strings exhaustively by case number (thorough), random short strings, mutated captures
        let src = ctx.choose("input_source", 3);
        let data: Vec<u8> = if env.thorough && env.case < 8 * 65_793 {
            // all strings of length <= 2 for each of the 8 entries
            let k = (env.case / 8) as usize;
            if k == 0 { vec![] } else if k <= 256 { vec![(k - 1) as u8] } else { let v = k - 257; vec![(v >> 8) as u8, v as u8] }
        } else if src == 0 {
            let n = ctx.choose("short_len", 9) as usize;
            ctx.bytes("short", n)
        } else {
            let p = ServerParams::generate(&mut ctx, 1);
            let w: Wr = match entry {
                0 => build::gcc_response(&p, 1),
                1 => {
                    // licence payload after the security header
                    let full = build::license(&ServerParams { per_long: false, ..p.clone() });
                    let off = full.fields.iter().find(|f| f.name == "lic.bMsgType").map(|f| f.off).unwrap_or(0);
                    let mut w = Wr::new();
                    w.bytes("lic", &full.buf[off..]);
                    w
                }
                7 => build::mcs_connect_response(&p, 1),
                _ => build::gcc_response(&p, 1),
            };
            let m = mutate::mutate(&mut ctx, "capture", &w);
            ctx.fault(m.kind);
            m.bytes
        };
        let entry = if env.thorough && env.case < 8 * 65_793 { env.case % 8 } else { entry };
        ctx.key_add(entry);
        ctx.key_add(data.len() as u64);
        if data.len() <= 2 { ctx.key_str(&crate::tape::hex(&data)); }
        ctx.ev("drv", format!("entry {} input {}", entry, crate::tape::hex_short(&data)));
        (entry, data)
    };
    let len = data.len();
    alloc::arm();
    let r = guard(|| {
        let mut c = Cursor::new(data.clone());
        match entry {
            0 => rdp::core::gcc::read_conference_create_response(&mut c).map(|_| ()).map_err(|e| err_kind(&e)),
            1 => rdp::core::license::client_connect(&mut c).map_err(|e| err_kind(&e)),
            2 => rdp::core::per::read_length(&mut c).map(|_| ()).map_err(|e| err_kind(&e)),
            3 => rdp::core::per::read_integer(&mut c).map(|_| ()).map_err(|e| err_kind(&e)),
            4 => rdp::core::per::read_integer_16(1001, &mut c).map(|_| ()).map_err(|e| err_kind(&e)),
            5 => rdp::core::per::read_object_identifier(&[0, 0, 20, 124, 0, 1], &mut c).map(|_| ()).map_err(|e| err_kind(&e)),
            6 => rdp::core::per::read_numeric_string(0, &mut c).map(|_| ()).map_err(|e| err_kind(&e)),
            _ => {
                let wire = Rc::new(RefCell::new(crate::wire::Wire::new()));
                wire.borrow_mut().push_s2c(&data);
                wire.borrow_mut().server_fin = true;
                let end = crate::wire::ClientEnd::new(wire, ctxrc.clone(), Rc::new(RefCell::new(crate::wire::NetCfg::benign())), None);
                let mut t = rdp::core::tpkt::Client::new(rdp::model::link::Link::new(rdp::model::link::Stream::Raw(end)));
                t.read().map(|_| ()).map_err(|e| err_kind(&e))
            }
        }
    });
    let st = alloc::disarm();
    match r {
        Err(p) => return panic_outcome(&p),
        Ok(res) => {
            ctxrc.borrow_mut().ev("drv", format!("-> {:?}", res));
        }
    }
    if let Some(o) = check_resources("c05", &ctxrc, &st, len, "parser entry") {
        return o;
    }
    ctxrc.borrow_mut().nontrivial = true;
    Outcome::Pass
}

// ------------------------------------------------------------------------------------------------ C06

fn hostile_base(ctx: &mut Ctx, p: &ServerParams, share_id: u32) -> (String, Wr) {
    let uid = p.user_id;
    let kind = ctx.choose("base_pdu", 18);
    let pgen = if ctx.chance("caps_gen", 1, 2) { ServerParams::generate(ctx, 1) } else { p.clone() };
    let mut pp = p.clone();
    pp.caps = pgen.caps;
    pp.source_desc = pgen.source_desc;
    match kind {
        0 | 1 | 2 => ("demand-active".into(), build::demand_active(&pp, share_id)),
        3 => ("deactivate-all".into(), build::send_data_indication(p, &build::deactivate_all_raw(p, share_id))),
        4 => ("synchronize".into(), build::share_data(p, share_id, 0x1f, &build::synchronize_payload(uid))),
        5 => ("control".into(), build::share_data(p, share_id, 0x14, &build::control_payload(*ctx.pick("ctl_action", &[4u16, 2, 1, 3, 0, 5]), uid, 0x03ea))),
        6 => ("font-map".into(), build::share_data(p, share_id, 0x28, &build::font_map_payload())),
        7 => ("set-error-info".into(), build::share_data(p, share_id, 0x2f, &build::set_error_info_payload(5))),
        8 => {
            let mut w = Wr::new();
            w.u32le("ssi.infoType", ctx.choose("ssi_type", 4) as u32).bytes("ssi.data", &[0u8; 16]);
            ("unknown-type2".into(), build::share_data(p, share_id, *ctx.pick("type2", &[0x26u8, 0x36, 0x37, 0x02, 0x1b, 0x00, 0xff]), &w))
        }
        9 => {
            // server redirection / unknown share-control type
            let mut b = Wr::new();
            b.u16le("redir.pad", 0).u16le("redir.flags", 0x0400).u16le("redir.length", 12).u32le("redir.sessionId", 1).u32le("redir.redirFlags", 0);
            ("redirection".into(), build::send_data_indication(p, &build::share_control(p, *ctx.pick("sc_type", &[0x1au16, 0x10, 0x12, 0x1f, 0x00]), &b)))
        }
        10 => {
            // several share-control PDUs in one payload
            let mut w = Wr::new();
            let n = 2 + ctx.choose("multi_n", 3);
            for _ in 0..n {
                match ctx.choose("multi_kind", 6) {
                    0 => { w.append(&build::deactivate_all_raw(p, share_id)); }
                    1 => { w.append(&build::demand_active_raw(&pp, share_id)); }
                    2 => { w.append(&build::share_data_raw(p, share_id, 0x1f, &build::synchronize_payload(uid))); }
                    3 => { w.append(&build::share_data_raw(p, share_id, 0x28, &build::font_map_payload())); }
                    _ => { w.append(&build::share_data_raw(p, share_id, 0x2f, &build::set_error_info_payload(0))); }
                }
            }
            ("multi-share-control".into(), build::send_data_indication(p, &w))
        }
        11 => ("disconnect-ultimatum".into(), build::mcs_disconnect_ultimatum()),
        16 => {
            // PDU kinds only a client sends, well formed: confirm-active
            let mut caps = Wr::new();
            for (t, body) in pp.caps.iter().take(6) {
                caps.u16le("cap.type", *t).u16le("cap.length", (body.len() + 4) as u16).bytes("cap.body", body);
            }
            let mut b = Wr::new();
            b.u32le("ca.shareId", share_id).u16le("ca.originatorId", 0x03ea).u16le("ca.lengthSourceDescriptor", 4).u16le("ca.lengthCombinedCapabilities", (caps.len() + 4) as u16)
                .bytes("ca.sourceDescriptor", b"RDP\0").u16le("ca.numberCapabilities", pp.caps.len().min(6) as u16).u16le("ca.pad2Octets", 0);
            b.append(&caps);
            ("confirm-active-from-server".into(), build::send_data_indication(p, &build::share_control(p, 0x13, &b)))
        }
        17 => {
            // ... and client data PDUs: input, font-list, suppress-output, refresh-rect
            let t2 = *ctx.pick("client_type2", &[0x1cu8, 0x27, 0x23, 0x21, 0x24, 0x2b]);
            let mut w = Wr::new();
            w.u16le("x.numEvents", 1).u16le("x.pad", 0).u32le("x.time", 0).u16le("x.messageType", 0x8001).u16le("x.flags", 0x0800).u16le("x.x", 1).u16le("x.y", 2);
            ("client-data-pdu-from-server".into(), build::share_data(p, share_id, t2, &w))
        }
        _ => {
            let (u, _) = crate::scen::c10::gen_fastpath_pdu(ctx, 600, ctx_flag(kind));
            ("fast-path".into(), build::fastpath(&u, kind == 15, (kind % 4) as u8 & if kind == 14 { 3 } else { 0 }))
        }
    }
}

fn ctx_flag(kind: u64) -> bool {
    kind % 2 == 0
}

pub fn run_c06(env: &mut Env) -> Outcome {
    let ctxrc = env.ctx.clone();
    let (mut s, _cfg, params) = match establish(env, "c06", false) {
        Ok(x) => x,
        Err(o) => return o,
    };
    // walk to the target state honestly
    let target = ctxrc.borrow_mut().choose("target_state", 7);
    let share_id = params.share_id;
    let uid = params.user_id;
    {
        let mut srv = s.world.server.borrow_mut();
        if target >= 1 { srv.send_demand_active(share_id); }
        if target >= 2 { srv.send_data_pdu("synchronize", 0x1f, &build::synchronize_payload(uid)); }
        if target >= 3 { srv.send_data_pdu("control-cooperate", 0x14, &build::control_payload(4, 0, 0)); }
        if target >= 4 { srv.send_data_pdu("control-granted", 0x14, &build::control_payload(2, uid, 0x03ea)); }
        if target >= 5 { srv.send_data_pdu("font-map", 0x28, &build::font_map_payload()); }
        if target >= 6 { srv.send_deactivate_all(); }
        srv.flush();
    }
    match s.drain(20) {
        Err(o) => return o,
        Ok(Err(k)) => return viol("c06/session-not-established", "walk", format!("honest walk to state {} failed: {}", target, k)),
        Ok(Ok(())) => {}
    }
    ctxrc.borrow_mut().key_add(target);
    env.cover.push(("target_state", target));
    let n = 1 + ctxrc.borrow_mut().choose("n_hostile", 3);
    let mut fired = false;
    for j in 0..n {
        let (name, bytes, after) = {
            let mut ctx = ctxrc.borrow_mut();
            let (name, w) = hostile_base(&mut ctx, &params, share_id);
            // unusual but well-formed PDUs are delivered unmutated now and then
            let m = if ctx.chance("deliver_unmutated", 1, 6) { mutate::Mutated { bytes: w.buf.clone(), after: After::Nothing, kind: "unusual_but_valid", desc: name.clone() } } else { mutate::mutate(&mut ctx, &name, &w) };
            ctx.fault(m.kind);
            ctx.key_str(m.kind);
            ctx.key_str(&m.desc);
            ctx.ev("fault", format!("{}: {}", m.kind, m.desc));
            (name, m.bytes, m.after)
        };
        fired = true;
        {
            let mut srv = s.world.server.borrow_mut();
            srv.queue_raw(&format!("hostile-{}", name), bytes);
            srv.flush();
            match after {
                After::Fin => srv.close_fin(),
                After::Silence => {}
                After::Nothing => {}
            }
        }
        let before = s.world.wire.borrow().s2c_total;
        alloc::arm();
        let r = s.read_once();
        let st = alloc::disarm();
        match r {
            Err(o) => return o,
            Ok(_) => {}
        }
        if let Some(o) = check_resources("c06", &ctxrc, &st, before, &format!("read of hostile PDU #{}", j)) {
            return o;
        }
        if after != After::Nothing {
            break;
        }
    }
    ctxrc.borrow_mut().nontrivial = fired;
    Outcome::Pass
}

// ------------------------------------------------------------------------------------------------ C07

pub fn run_c07(env: &mut Env) -> Outcome {
    let ctxrc = env.ctx.clone();
    let (cfg, params, net) = {
        let mut ctx = ctxrc.borrow_mut();
        let mut cfg = ClientCfg::plain();
        cfg.nla = true;
        cfg.use_hash = ctx.chance("use_hash", 1, 4);
        if ctx.chance("empty_domain", 1, 3) { cfg.domain = String::new(); }
        let mut params = ServerParams::default_for(2);
        params.cert = ctx.choose("cert", crate::refsrv::server::FIXTURES.len() as u64) as usize;
        let net = gen_benign_net(&mut ctx);
        // a resized TSRequest can carry 70000 octets and the transport may hand them over one at a time
        ctx.step_budget = 600_000;
        (cfg, params, net)
    };
    let world = World::new(ctxrc.clone(), params.clone(), net);
    let mut nla = {
        let mut ctx = ctxrc.borrow_mut();
        crate::scen::session::seed_client_randomness(&mut ctx);
        crate::scen::session::make_nla(&mut ctx, &cfg)
    };
    let (stage_target, layer) = {
        let mut ctx = ctxrc.borrow_mut();
        (ctx.choose("c07_stage", 3) as u8 % 2 + if ctx.chance("both_stages", 1, 8) { 2 } else { 0 }, ctx.choose("c07_layer", 3))
    };
    let fired: Rc<RefCell<Vec<String>>> = Rc::new(RefCell::new(Vec::new()));
    let f2 = fired.clone();
    nla.ts_mutator = Some(Box::new(move |ctx: &mut Ctx, stage: u8, honest: &[u8], token: &[u8]| {
        let hit = stage_target >= 2 || stage == stage_target;
        if !hit {
            return None;
        }
        // layer 0: the DER envelope; 1: the NTLM token inside a valid envelope (stage 0) / the sealed token (stage 1); 2: special shapes
        let out: Vec<u8> = match (layer, stage) {
            (1, 0) => {
                let w = mutate::challenge_fieldmap(token);
                let m = mutate::mutate(ctx, "challenge", &w);
                ctx.fault(m.kind);
                ctx.key_str(m.kind);
                ctx.key_str(&m.desc);
                ctx.ev("fault", format!("{}: {}", m.kind, m.desc));
                f2.borrow_mut().push(m.desc.clone());
                crate::refsrv::cssp::build_ts_request(&crate::refsrv::cssp::TsRequest { version: 6, nego_tokens: vec![m.bytes], auth_info: None, pub_key_auth: None, error_code: None, client_nonce: None })
            }
            (2, 0) => {
                // special CHALLENGE shapes
                let shape = ctx.choose("challenge_shape", 12);
                let mut t = token.to_vec();
                let desc;
                match shape {
                    0 => { desc = "no-timestamp"; // turn every AV id 7 into id 5
                        let w = mutate::challenge_fieldmap(&t);
                        for f in w.fields.iter().filter(|f| f.name == "challenge.av.id") { if t[f.off] == 7 && t[f.off + 1] == 0 { t[f.off] = 5; } } }
                    1 => { desc = "no-target-info"; if t.len() >= 48 { t[40] = 0; t[41] = 0; t[42] = 0; t[43] = 0; } }
                    2 => { desc = "version-bit-without-version"; if t.len() >= 24 { t[23] ^= 0x02; } }
                    3 => { desc = "missing-eol"; let n = t.len(); if n >= 4 { t.truncate(n - 4); if t.len() >= 44 { let l = u16::from_le_bytes([t[40], t[41]]).saturating_sub(4); t[40] = l as u8; t[41] = (l >> 8) as u8; t[42] = t[40]; t[43] = t[41]; } } }
                    4 => { desc = "avlen-beyond-buffer"; let w = mutate::challenge_fieldmap(&t); if let Some(f) = w.fields.iter().find(|f| f.name == "challenge.av.len") { t[f.off] = 0xff; t[f.off + 1] = 0xff; } }
                    5 => { desc = "unknown-av-id"; let w = mutate::challenge_fieldmap(&t); if let Some(f) = w.fields.iter().find(|f| f.name == "challenge.av.id") { let v = *ctx.pick("av_id_v", &[0x0bu16, 0x0c, 0x10, 0xffff, 0x8000]); t[f.off] = v as u8; t[f.off + 1] = (v >> 8) as u8; } }
                    6 => { desc = "empty-token"; t.clear(); }
                    11 => {
                        // OEM strings, target type "domain", and a target name that is neither ASCII nor UTF-8
                        desc = "oem-domain-target";
                        if t.len() >= 24 {
                            t[20] = (t[20] & !0x01) | 0x02;
                            t[22] = (t[22] & !0x02) | 0x01;
                            let off = u32::from_le_bytes([t[16], t[17], t[18], t[19]]) as usize;
                            let len = u16::from_le_bytes([t[12], t[13]]) as usize;
                            if len > 0 && off + len <= t.len() {
                                for i in 0..len { t[off + i] = if i % 2 == 0 { 0xdc } else { 0x4e }; }
                            }
                        }
                    }
                    10 => {
                        // a long list of tokens (the genuine CHALLENGE first)
                        let n = 2 + ctx.choose("n_tokens", 40) as usize;
                        ctx.fault("challenge_shape");
                        ctx.key_str("many-tokens");
                        ctx.ev("fault", format!("challenge shape: {} negoTokens", n));
                        f2.borrow_mut().push("many-tokens".to_string());
                        let mut toks = vec![t.clone()];
                        for i in 1..n { toks.push(vec![i as u8; 1 + i % 5]); }
                        return Some(crate::refsrv::cssp::build_ts_request(&crate::refsrv::cssp::TsRequest { version: 6, nego_tokens: toks, auth_info: None, pub_key_auth: None, error_code: None, client_nonce: None }));
                    }
                    8 | 9 => {
                        // negoTokens present but an empty SEQUENCE OF (8) / an element without negoToken content (9)
                        ctx.fault("challenge_shape");
                        let d = if shape == 8 { "empty-sequence-of" } else { "empty-octet-string" };
                        ctx.key_str(d);
                        ctx.ev("fault", format!("challenge shape: {}", d));
                        f2.borrow_mut().push(d.to_string());
                        return Some(if shape == 8 { vec![0x30, 0x09, 0xa0, 0x03, 0x02, 0x01, 0x06, 0xa1, 0x02, 0x30, 0x00] } else { vec![0x30, 0x0f, 0xa0, 0x03, 0x02, 0x01, 0x06, 0xa1, 0x08, 0x30, 0x06, 0x30, 0x04, 0xa0, 0x02, 0x04, 0x00] });
                    }
                    _ => { desc = "offset-at-end"; if t.len() >= 48 { let n = t.len() as u32; t[44..48].copy_from_slice(&n.to_le_bytes()); } }
                }
                ctx.fault("challenge_shape");
                ctx.key_str(desc);
                ctx.ev("fault", format!("challenge shape: {}", desc));
                f2.borrow_mut().push(desc.to_string());
                crate::refsrv::cssp::build_ts_request(&crate::refsrv::cssp::TsRequest { version: 6, nego_tokens: if shape == 6 && ctx.chance("empty_list", 1, 2) { vec![] } else { vec![t] }, auth_info: None, pub_key_auth: None, error_code: None, client_nonce: None })
            }
            (1, _) | (2, _) => {
                // the sealed pubKeyAuth token inside a valid envelope
                let req = crate::refsrv::cssp::parse_ts_request(honest, false).ok();
                let mut tok = req.and_then(|r| r.pub_key_auth).unwrap_or_default();
                let shape = ctx.choose("sealed_shape", 6);
                let desc;
                match shape {
                    0 => { let n = ctx.choose("sealed_len", 17) as usize; tok.truncate(n); desc = "shorter-than-signature"; }
                    1 => { if !tok.is_empty() { tok[0] = ctx.choose("sig_version", 256) as u8; } desc = "signature-version"; }
                    2 => { let n = tok.len(); if n > 0 { let p = ctx.choose("sealed_pos", n as u64) as usize; tok[p] ^= 1 << ctx.choose("sealed_bit", 8); } desc = "bitflip"; }
                    3 => { tok.extend_from_slice(&[0u8; 3]); desc = "extended"; }
                    4 => { tok.clear(); desc = "empty"; }
                    _ => { let n = ctx.choose("sealed_garbage", 64) as usize; tok = ctx.bytes("sealed_garbage_b", n); desc = "garbage"; }
                }
                ctx.fault("sealed_token_shape");
                ctx.key_str(desc);
                ctx.ev("fault", format!("sealed token: {}", desc));
                f2.borrow_mut().push(desc.to_string());
                crate::refsrv::cssp::build_ts_request(&crate::refsrv::cssp::TsRequest { version: 6, nego_tokens: vec![], auth_info: None, pub_key_auth: Some(tok), error_code: None, client_nonce: None })
            }
            _ if ctx.chance("der_overstated_length", 1, 4) => {
                // the outer SEQUENCE announces (much) more than is sent, in a long-form length of 1..4 octets
                let width = 1 + ctx.choose("der_len_width", 4) as usize;
                let real = honest.len().saturating_sub(2 + if honest.get(1).map(|b| b & 0x80 != 0).unwrap_or(false) { (honest[1] & 0x7f) as usize } else { 0 });
                let val: u64 = match ctx.choose("der_len_val", 6) { 0 => real as u64 + 1, 1 => 0xffff_ffff, 2 => 0x7fff_ffff, 3 => 0x1000_0000, 4 => 0x0080_0000, _ => real as u64 + 1 + ctx.choose("der_len_more", 70000) };
                let val = val & ((1u64 << (8 * width)) - 1).max(0xff);
                let body_off = honest.len() - real;
                let mut out = vec![0x30, 0x80 | width as u8];
                out.extend_from_slice(&val.to_be_bytes()[8 - width..]);
                let keep = ctx.choose("der_keep", real as u64 + 1) as usize;
                out.extend_from_slice(&honest[body_off..body_off + keep.min(real)]);
                ctx.fault("der_overstated_length");
                ctx.key_str("der_overstated_length");
                ctx.key_add(width as u64);
                ctx.ev("fault", format!("outer SEQUENCE announces {} bytes in {} length octets, {} sent", val, width, keep));
                f2.borrow_mut().push("der-overstated-length".to_string());
                out
            }
            _ => {
                let w = mutate::der_fieldmap(honest);
                let m = mutate::mutate(ctx, if stage == 0 { "tsrequest-challenge" } else { "tsrequest-pubkeyauth" }, &w);
                ctx.fault(m.kind);
                ctx.key_str(m.kind);
                ctx.key_str(&m.desc);
                ctx.ev("fault", format!("{}: {}", m.kind, m.desc));
                f2.borrow_mut().push(m.desc.clone());
                m.bytes
            }
        };
        Some(out)
    }));
    // instead: an honest exchange whose final reply is sealed correctly but carries an odd plaintext
    if ctxrc.borrow_mut().chance("sealed_odd_plaintext", 1, 6) {
        nla.ts_mutator = None;
        let f3 = fired.clone();
        nla.final_reply = Some(Box::new(move |ctx: &mut Ctx, fc: &mut crate::refsrv::nla::FinalCtx| {
            let plus1 = crate::refsrv::nla::increment_le(fc.honest_key);
            let plain: Vec<u8> = match ctx.choose("odd_plaintext", 6) {
                0 => Vec::new(),
                1 => plus1[..ctx.choose("odd_prefix", plus1.len() as u64) as usize].to_vec(),
                2 => { let mut p = plus1.clone(); p.extend(std::iter::repeat(0u8).take(1 + ctx.choose("odd_extra", 600) as usize)); p }
                3 => { let n = ctx.choose("odd_len", 1200) as usize; ctx.bytes("odd_bytes", n.min(16)).into_iter().cycle().take(n).collect() }
                4 => vec![0xff; plus1.len()],
                _ => plus1[1..].to_vec(),
            };
            ctx.fault("sealed_odd_plaintext");
            ctx.key_str("sealed_odd_plaintext");
            ctx.key_add(plain.len() as u64 / 16);
            ctx.ev("fault", format!("final reply correctly sealed over {} odd plaintext bytes", plain.len()));
            f3.borrow_mut().push("sealed-odd-plaintext".to_string());
            let t = fc.seal.seal(&plain);
            vec![crate::refsrv::cssp::build_ts_request(&crate::refsrv::cssp::TsRequest { version: fc.cssp_version, nego_tokens: vec![], auth_info: None, pub_key_auth: Some(t), error_code: None, client_nonce: None })]
        }));
    }
    world.server.borrow_mut().nla = Some(Box::new(nla));
    alloc::arm();
    let s = Session::connect(World { ctx: world.ctx.clone(), wire: world.wire.clone(), cfg: world.cfg.clone(), server: world.server.clone() }, &cfg);
    let st = alloc::disarm();
    rdp::model::rnd::verif::install(None);
    let s = match s {
        Ok(s) => s,
        Err(o) => return o,
    };
    let total = world.wire.borrow().s2c_total;
    if let Some(o) = check_resources("c07", &ctxrc, &st, total, "connect (NLA)") {
        return o;
    }
    let hit = !fired.borrow().is_empty();
    let mut ctx = ctxrc.borrow_mut();
    ctx.ev("drv", format!("connect outcome {:?}", s.connect_result));
    ctx.nontrivial = hit;
    Outcome::Pass
}

pub fn run_c07_direct(env: &mut Env) -> Outcome {
    use rdp::nla::sspi::{AuthenticationProtocol, GenericSecurityService};
    let ctxrc = env.ctx.clone();
    let (entry, data) = {
        let mut ctx = ctxrc.borrow_mut();
        let mut entry = ctx.choose("entry", 4);
        let data: Vec<u8> = if env.thorough && env.case < 4 * 65_793 {
            entry = env.case % 4;
            let k = (env.case / 4) as usize;
            if k == 0 { vec![] } else if k <= 256 { vec![(k - 1) as u8] } else { let v = k - 257; vec![(v >> 8) as u8, v as u8] }
        } else if ctx.chance("short", 1, 3) {
            let n = ctx.choose("short_len", 9) as usize;
            ctx.bytes("short_b", n)
        } else {
            // a valid message of the right kind, mutated
            let cfg = ClientCfg::plain();
            let nla = crate::scen::session::make_nla(&mut ctx, &cfg);
            let neg = crate::refsrv::ntlm::parse_negotiate(&[78, 84, 76, 77, 83, 83, 80, 0, 1, 0, 0, 0, 53, 130, 8, 96, 0, 0, 0, 0, 0, 0, 0, 0, 0, 0, 0, 0, 0, 0, 0, 0]).unwrap();
            let challenge = crate::refsrv::ntlm::build_challenge(&neg, &nla.challenge_cfg);
            let w = match entry {
                0 => mutate::challenge_fieldmap(&challenge),
                1 => mutate::der_fieldmap(&crate::refsrv::cssp::build_ts_request(&crate::refsrv::cssp::TsRequest { version: 6, nego_tokens: vec![challenge.clone()], auth_info: None, pub_key_auth: None, error_code: None, client_nonce: None })),
                2 => mutate::der_fieldmap(&crate::refsrv::cssp::build_ts_request(&crate::refsrv::cssp::TsRequest { version: 6, nego_tokens: vec![], auth_info: None, pub_key_auth: Some(vec![1, 0, 0, 0, 9, 9, 9, 9, 9, 9, 9, 9, 0, 0, 0, 0, 5, 5, 5]), error_code: None, client_nonce: None })),
                _ => { let mut w = Wr::new(); w.u32le("sig.version", 1).bytes("sig.checksum", &[7u8; 8]).u32le("sig.seq", 0).bytes("sig.payload", &[3u8; 20]); w }
            };
            let m = mutate::mutate(&mut ctx, "capture", &w);
            ctx.fault(m.kind);
            m.bytes
        };
        ctx.key_add(entry);
        ctx.key_add(data.len() as u64);
        if data.len() <= 2 { ctx.key_str(&crate::tape::hex(&data)); }
        ctx.ev("drv", format!("entry {} input {}", entry, crate::tape::hex_short(&data)));
        (entry, data)
    };
    let len = data.len();
    rdp::model::rnd::verif::install(Some(Box::new(|n| vec![0x42; n])));
    alloc::arm();
    let r = guard(|| {
        match entry {
            0 => {
                let mut n = rdp::nla::ntlm::Ntlm::new("d".to_string(), "u".to_string(), "p".to_string());
                let _ = n.create_negotiate_message();
                n.read_challenge_message(&data).map(|_| ()).map_err(|e| err_kind(&e))
            }
            1 => rdp::nla::cssp::read_ts_server_challenge(&data).map(|_| ()).map_err(|e| err_kind(&e)),
            2 => rdp::nla::cssp::read_ts_validate(&data).map(|_| ()).map_err(|e| err_kind(&e)),
            _ => {
                let mut sec = rdp::nla::ntlm::NTLMv2SecurityInterface::new(rdp::nla::rc4::Rc4::new(b"k1"), rdp::nla::rc4::Rc4::new(b"k2"), vec![1; 16], vec![2; 16]);
                sec.gss_unwrapex(&data).map(|_| ()).map_err(|e| err_kind(&e))
            }
        }
    });
    let st = alloc::disarm();
    rdp::model::rnd::verif::install(None);
    match r {
        Err(p) => return panic_outcome(&p),
        Ok(res) => ctxrc.borrow_mut().ev("drv", format!("-> {:?}", res)),
    }
    if let Some(o) = check_resources("c07", &ctxrc, &st, len, "parser entry") {
        return o;
    }
    ctxrc.borrow_mut().nontrivial = true;
    Outcome::Pass
}
