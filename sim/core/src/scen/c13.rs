//! C13 — inbound deframing is exact under arbitrary fragmentation.
//! Real code: rdp::core::tpkt::Client::read over rdp::model::link::{Link, Stream::Raw}.
//! Simulated: the byte stream (ClientEnd), fed by a segment feeder.

use crate::harness::{err_kind, guard, panic_outcome, viol, Outcome};
use crate::scen::Env;
use crate::tape::{hex_short, Ctx};
use crate::wire::{ClientEnd, NetCfg, Pump, ReadMode, Wire};
use rdp::core::tpkt;
use rdp::model::link::{Link, Stream};
use std::cell::RefCell;
use std::rc::Rc;

#[derive(Clone, Debug)]
pub enum Kind {
    Tpkt,
    FpShort,
    FpLong,
}

#[derive(Clone, Debug)]
pub struct Frame {
    pub kind: Kind,
    pub header: u8,
    pub bytes: Vec<u8>,
    pub payload_off: usize,
    pub malformed: bool,
}

impl Frame {
    fn class(&self) -> String {
        let plen = self.bytes.len() - self.payload_off;
        let k = match self.kind { Kind::Tpkt => "tpkt", Kind::FpShort => "fp-short", Kind::FpLong => "fp-long" };
        if self.malformed {
            format!("{}/malformed", k)
        } else if plen == 0 {
            format!("{}/zero-payload", k)
        } else {
            k.to_string()
        }
    }
}

/// feeds the remaining stream in chunks each time the client is about to block
pub struct Feeder {
    pub wire: Rc<RefCell<Wire>>,
    pub chunks: Vec<Vec<u8>>,
    pub next: usize,
}
impl Pump for Feeder {
    fn pump(&mut self) -> bool {
        if self.next < self.chunks.len() {
            let c = self.chunks[self.next].clone();
            self.next += 1;
            self.wire.borrow_mut().push_s2c(&c);
            true
        } else {
            false
        }
    }
}

fn gen_len(ctx: &mut Ctx, lo: usize, hi: usize, stratum: Option<usize>) -> usize {
    if let Some(s) = stratum {
        return lo + s % (hi - lo + 1);
    }
    match ctx.choose("len_class", 8) {
        0 | 1 | 2 => lo + ctx.choose("len_small", 40.min((hi - lo + 1) as u64)) as usize,
        3 => {
            const B: [usize; 14] = [0, 1, 2, 3, 4, 0x7b, 0x7c, 0x7d, 0x7e, 0x7f, 0x80, 0x81, 0xff, 0x100];
            (lo + B[ctx.choose("len_b", B.len() as u64) as usize]).min(hi)
        }
        4 => {
            if ctx.chance("len_block_multiple", 1, 2) {
                // bodies that are exact multiples of 4 / 8 / 16 KiB, and their neighbours
                let base = *ctx.pick("len_block", &[0x1000usize, 0x2000, 0x4000, 0x8000, 0xC000, 0x3fff, 0x7fff]);
                let hdr = lo.max(2);
                (base + hdr + ctx.choose("len_block_d", 3) as usize).saturating_sub(1).clamp(lo, hi)
            } else {
                hi - ctx.choose("len_top", 4.min((hi - lo + 1) as u64)) as usize
            }
        }
        5 => lo + ctx.choose("len_mid", 2000.min((hi - lo + 1) as u64)) as usize,
        _ => lo + ctx.choose("len_any", (hi - lo + 1) as u64) as usize,
    }
}

fn fill(ctx: &mut Ctx, n: usize) -> Vec<u8> {
    // cheap deterministic payload: a seed byte from the tape, then a counter pattern; the first
    // bytes look like frame headers on purpose (so that over-consumption mis-parses visibly)
    let a = ctx.choose("fill", 256) as u8;
    let mut v = Vec::with_capacity(n);
    for i in 0..n {
        v.push(match i { 0 => 3, 1 => 0, 2 => a, 3 => 9, _ => a.wrapping_add((i as u8).wrapping_mul(7)) });
    }
    v
}

pub fn gen_frame(ctx: &mut Ctx, stratum: Option<usize>) -> Frame {
    match ctx.choose("kind", 3) {
        0 => {
            let total = gen_len(ctx, 4, 65535, stratum);
            let mut b = vec![3u8, 0, (total >> 8) as u8, (total & 0xff) as u8];
            b.extend(fill(ctx, total - 4));
            Frame { kind: Kind::Tpkt, header: 3, bytes: b, payload_off: 4, malformed: false }
        }
        1 => {
            let h = (ctx.choose("fp_hdr", 64) as u8) << 2;
            let total = gen_len(ctx, 2, 127, stratum);
            let mut b = vec![h, total as u8];
            b.extend(fill(ctx, total - 2));
            Frame { kind: Kind::FpShort, header: h, bytes: b, payload_off: 2, malformed: false }
        }
        _ => {
            let h = (ctx.choose("fp_hdr", 64) as u8) << 2;
            let total = gen_len(ctx, 3, 32767, stratum);
            let mut b = vec![h, 0x80 | (total >> 8) as u8, (total & 0xff) as u8];
            b.extend(fill(ctx, total - 3));
            Frame { kind: Kind::FpLong, header: h, bytes: b, payload_off: 3, malformed: false }
        }
    }
}

fn gen_malformed(ctx: &mut Ctx) -> Frame {
    match ctx.choose("mal_kind", 3) {
        0 => {
            let total = ctx.choose("mal_len", 4) as usize;
            let b = vec![3u8, 0, 0, total as u8];
            Frame { kind: Kind::Tpkt, header: 3, bytes: b, payload_off: 4, malformed: true }
        }
        1 => {
            let h = (ctx.choose("fp_hdr", 64) as u8) << 2;
            let total = ctx.choose("mal_len", 2) as u8;
            Frame { kind: Kind::FpShort, header: h, bytes: vec![h, total], payload_off: 2, malformed: true }
        }
        _ => {
            let h = (ctx.choose("fp_hdr", 64) as u8) << 2;
            let total = ctx.choose("mal_len", 3) as u8;
            Frame { kind: Kind::FpLong, header: h, bytes: vec![h, 0x80, total], payload_off: 3, malformed: true }
        }
    }
}

pub fn run(env: &mut Env) -> Outcome {
    let ctxrc = env.ctx.clone();
    let mut frames: Vec<Frame> = Vec::new();
    let mut cfg = NetCfg::benign();
    let mut stream: Vec<u8> = Vec::new();
    let chunks: Vec<Vec<u8>>;
    {
        let mut ctx = ctxrc.borrow_mut();
        let nframes = 1 + ctx.choose("nframes", 12) as usize;
        // the thorough tier walks the first frame's length through every value (stratified cover)
        let stratum = if env.thorough && env.case % 2 == 0 { Some((env.case / 2) as usize) } else { None };
        for i in 0..nframes {
            let f = gen_frame(&mut ctx, if i == 0 { stratum } else { None });
            frames.push(f);
        }
        if ctx.chance("malformed_tail", 1, 4) {
            let f = gen_malformed(&mut ctx);
            frames.push(f);
            // something after it so that a lenient reader has bytes to chew on
            frames.push(Frame { kind: Kind::Tpkt, header: 3, bytes: vec![3, 0, 0, 8, 1, 2, 3, 4], payload_off: 4, malformed: false });
        }
        for f in &frames {
            stream.extend_from_slice(&f.bytes);
        }
        // schedule of partial reads
        let mode = ctx.choose("read_mode", 6);
        cfg.read_mode = match mode {
            0 => ReadMode::Whole,
            1 => ReadMode::Cap(1),
            2 => ReadMode::Cap(1 + ctx.choose("cap", 7) as usize),
            3 => ReadMode::Random,
            4 => {
                // a split exactly at a header offset of some frame
                let mut offs = Vec::new();
                let mut start = 0;
                for f in &frames {
                    let o = 1 + ctx.choose("hdr_off", 4) as usize;
                    offs.push(start + o);
                    start += f.bytes.len();
                }
                ReadMode::AtOffsets(offs)
            }
            _ => ReadMode::Cap(1 + ctx.choose("cap_big", 1500) as usize),
        };
        // keep the cost of a case bounded: byte-wise dribbling only over short streams
        if stream.len() > 2048 {
            let floor = stream.len() / 48;
            cfg.read_mode = match cfg.read_mode {
                ReadMode::Cap(k) if k < floor => ReadMode::Cap(floor + k),
                m => m,
            };
        }
        cfg.eintr_read = if ctx.chance("eintr_on", 1, 3) { 3 } else { 0 };
        // delivery: all at once, or in segments handed over when the client blocks
        let seg = ctx.choose("segments", 4);
        chunks = match seg {
            0 | 1 => vec![stream.clone()],
            2 => {
                // frame by frame
                frames.iter().map(|f| f.bytes.clone()).collect()
            }
            _ => {
                let mut out = Vec::new();
                let mut pos = 0;
                while pos < stream.len() {
                    let n = 1 + ctx.choose("seg_len", 3000) as usize;
                    let end = (pos + n).min(stream.len());
                    out.push(stream[pos..end].to_vec());
                    pos = end;
                }
                out
            }
        };
        cfg.respect_segments = ctx.chance("respect_seg", 1, 2);
        ctx.key_add(mode);
        ctx.key_add(seg);
        ctx.key_add(cfg.eintr_read);
        for f in &frames {
            ctx.key_str(&f.class());
            let plen = f.bytes.len() - f.payload_off;
            ctx.key_add(if plen < 4 { plen as u64 } else { 64 - (plen as u64).leading_zeros() as u64 + 4 });
        }
        ctx.step_budget = 50 + 4 * stream.len() as u64 + 1000;
    }
    for f in &frames {
        if !f.malformed {
            let name = match f.kind { Kind::Tpkt => "tpkt_len", Kind::FpShort => "fp_short_len", Kind::FpLong => "fp_long_len" };
            env.cover.push((name, f.bytes.len() as u64));
            if matches!(f.kind, Kind::Tpkt) == false {
                env.cover.push(("fp_header", f.header as u64));
            }
        }
    }

    let wire = Rc::new(RefCell::new(Wire::new()));
    let feeder = Rc::new(RefCell::new(Feeder { wire: wire.clone(), chunks, next: 0 }));
    feeder.borrow_mut().pump();
    let cfgrc = Rc::new(RefCell::new(cfg));
    let end = ClientEnd::new(wire.clone(), ctxrc.clone(), cfgrc, Some(feeder.clone() as Rc<RefCell<dyn Pump>>));
    let mut client = tpkt::Client::new(Link::new(Stream::Raw(end)));

    let mut consumed_expected = 0usize;
    for (k, f) in frames.iter().enumerate() {
        let res = guard(|| client.read());
        let res = match res {
            Ok(r) => r,
            Err(p) => return panic_outcome(&p),
        };
        ctxrc.borrow_mut().ev("drv", format!("read#{} {} -> {}", k, f.class(), match &res { Ok(tpkt::Payload::Raw(c)) => format!("Raw({})", c.get_ref().len()), Ok(tpkt::Payload::FastPath(fl, c)) => format!("FastPath({},{})", fl, c.get_ref().len()), Err(e) => err_kind(e) }));
        if ctxrc.borrow().budget_exceeded {
            return viol("c13/spin", &f.class(), format!("step budget exhausted reading frame {} ({})", k, f.class()));
        }
        if f.malformed {
            ctxrc.borrow_mut().probe("malformed_frame");
            return match res {
                Err(_) => {
                    ctxrc.borrow_mut().nontrivial = true;
                    Outcome::Pass
                }
                Ok(_) => viol("c13/malformed-accepted", &f.class(), format!("frame {} = {} shorter than its own header was accepted", k, hex_short(&f.bytes))),
            };
        }
        consumed_expected += f.bytes.len();
        let expect_payload = &f.bytes[f.payload_off..];
        if expect_payload.is_empty() {
            ctxrc.borrow_mut().probe("zero_payload_frame");
        }
        match res {
            Err(e) => {
                return viol("c13/unexpected-error", &format!("{} {}", f.class(), err_kind(&e)), format!("read #{} of well-formed frame {} failed: {}", k, hex_short(&f.bytes), err_kind(&e)));
            }
            Ok(p) => {
                let (is_fp, flags, data) = match p {
                    tpkt::Payload::Raw(c) => (false, 0u8, c.into_inner()),
                    tpkt::Payload::FastPath(fl, c) => (true, fl, c.into_inner()),
                };
                let want_fp = !matches!(f.kind, Kind::Tpkt);
                if is_fp != want_fp {
                    return viol("c13/kind-mismatch", &f.class(), format!("frame {}: kind fast-path={} expected {}", k, is_fp, want_fp));
                }
                if want_fp && flags != (f.header >> 6) {
                    return viol("c13/flags-mismatch", &f.class(), format!("frame {}: security flags {} expected {}", k, flags, f.header >> 6));
                }
                if data != expect_payload {
                    return viol("c13/payload-mismatch", &f.class(), format!("frame {}: payload {} expected {}", k, hex_short(&data), hex_short(expect_payload)));
                }
                let delivered = wire.borrow().delivered;
                if delivered != consumed_expected {
                    return viol("c13/overconsume", &f.class(), format!("after read #{} the transport has handed out {} bytes, the frames so far are {} bytes", k, delivered, consumed_expected));
                }
            }
        }
    }
    let mut ctx = ctxrc.borrow_mut();
    ctx.nontrivial = true;
    if frames.len() > 1 {
        ctx.probe("multi_frame");
    }
    Outcome::Pass
}
