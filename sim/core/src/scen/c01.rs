//! C01 — NLA releases credentials only after the server proves the session key.
//! Everything up to the final CredSSP reply is honest; the reply is drawn from a forgery space.

use crate::harness::{viol, Outcome};
use crate::refsrv::build::ServerParams;
use crate::refsrv::cssp::{self, TsRequest};
use crate::refsrv::der;
use crate::refsrv::nla::{increment_le, subject_public_key, FinalCtx};
use crate::refsrv::ntlm::SealCtx;
use crate::refsrv::server::{cert_der, FIXTURES};
use crate::refsrv::world::World;
use crate::scen::session::{gen_benign_net, gen_string, ClientCfg, Session};
use crate::scen::Env;
use crate::tape::Ctx;
use std::cell::RefCell;
use std::rc::Rc;

#[derive(Clone, Debug, PartialEq)]
enum Special {
    None,
    EarlierSessionKey([u8; 16]),
    Unprotected,
}

#[derive(Clone, Debug, PartialEq)]
enum Expect {
    /// the client must fail and write nothing more
    Reject,
    /// the server did prove the key (or the statement does not decide): either outcome
    Either,
    /// honest: the client must go on and only now send its credentials
    Proceed,
}

fn reply(version: u64, token: Vec<u8>) -> Vec<u8> {
    cssp::build_ts_request(&TsRequest { version, nego_tokens: vec![], auth_info: None, pub_key_auth: Some(token), error_code: None, client_nonce: None })
}

/// does the (possibly mutated) reply still carry exactly the honest sealed token?
fn carries_honest_token(bytes: &[u8], honest_token: &[u8]) -> bool {
    match cssp::parse_ts_request(bytes, false) {
        Ok(r) => r.pub_key_auth.as_deref() == Some(honest_token),
        Err(_) => false,
    }
}

fn forge(ctx: &mut Ctx, fc: &mut FinalCtx, thorough_bit: Option<usize>, special: &Special) -> (Vec<Vec<u8>>, Expect, String) {
    let key = fc.honest_key.to_vec();
    let honest_plain = increment_le(&key);
    let v = fc.cssp_version;
    match special {
        Special::EarlierSessionKey(prev) => {
            // the peer learnt the session key of an earlier connection made with the same connector; it does not know
            // the password, so it cannot know this connection's key
            let t = SealCtx::new(prev, true).seal(&honest_plain);
            let e = if *prev == fc.exported_session_key { Expect::Reject } else { Expect::Reject };
            return (vec![reply(v, t)], e, "sealed-under-the-session-key-of-an-earlier-connection".into());
        }
        Special::Unprotected => {
            // the server negotiated neither SIGN nor SEAL in its CHALLENGE and answers in clear under a dummy signature
            let mut t = vec![1u8, 0, 0, 0, 0, 0, 0, 0, 0, 0, 0, 0, 0, 0, 0, 0];
            t.extend_from_slice(&honest_plain);
            return (vec![reply(v, t)], Expect::Reject, "clear-text-under-dummy-signature".into());
        }
        Special::None => {}
    }
    let family = if thorough_bit.is_some() { 1 } else { ctx.choose("forgery_family", 15) };
    match family {
        0 => {
            let t = fc.seal.seal(&honest_plain);
            (vec![reply(v, t)], Expect::Proceed, "honest".into())
        }
        1 => {
            // single-bit corruption of the honest DER reply
            let t = fc.seal.seal(&honest_plain);
            let mut r = reply(v, t.clone());
            let bit = match thorough_bit { Some(b) => b % (r.len() * 8), None => ctx.choose("flip_bit", (r.len() * 8) as u64) as usize };
            r[bit / 8] ^= 1 << (bit % 8);
            let e = if carries_honest_token(&r, &t) { Expect::Either } else { Expect::Reject };
            (vec![r], e, format!("bitflip@{}", if bit / 8 < 12 { "der-header" } else { "token" }))
        }
        2 => {
            // another numeric offset of the key
            let which = ctx.choose("offset_kind", 9);
            let (plain, name): (Vec<u8>, &str) = match which {
                0 => (key.clone(), "+0"),
                1 => (increment_le(&increment_le(&key)), "+2"),
                2 => { let mut k = key.clone(); let mut i = 0; while i < k.len() { if k[i] == 0 { k[i] = 0xff; i += 1; } else { k[i] -= 1; break; } } (k, "-1") }
                3 => { let mut k = key.clone(); for _ in 0..255 { k = increment_le(&k); } (k, "+255") }
                4 => { let mut k = key.clone(); if k.len() > 1 { let t = increment_le(&k[1..]); k.truncate(1); k.extend(t); } (k, "+256") }
                5 => { let mut k = key.clone(); let n = k.len(); let p = 1 + ctx.choose("pow_byte", (n - 1) as u64) as usize; k[p] = k[p].wrapping_add(1); (k, "+2^k") }
                6 => { let mut k = key.clone(); let n = k.len(); k[n - 1] = k[n - 1].wrapping_add(1); (k, "+1-on-last-byte") }
                7 => { let mut k = key.clone(); k.reverse(); let mut k = increment_le(&k); k.truncate(key.len()); k.reverse(); (k, "big-endian+1") }
                _ => { let n = key.len(); (ctx.bytes("random_plain", 8).into_iter().cycle().take(n).collect(), "random-value") }
            };
            if plain == honest_plain {
                let t = fc.seal.seal(&plain);
                return (vec![reply(v, t)], Expect::Proceed, "honest(coincidence)".into());
            }
            let t = fc.seal.seal(&plain);
            (vec![reply(v, t)], Expect::Reject, format!("offset{}", name))
        }
        3 => {
            // the honest value sealed under keys the real server would not have
            let which = ctx.choose("wrong_key_kind", 4);
            let (t, name) = match which {
                0 => { let mut k = [0u8; 16]; k.copy_from_slice(&ctx.bytes("random_key", 16)); (SealCtx::new(&k, true).seal(&honest_plain), "random-session-key") }
                1 => { let mut k = fc.exported_session_key; k[ctx.choose("key_byte", 16) as usize] ^= 1 << ctx.choose("key_bit", 8); (SealCtx::new(&k, true).seal(&honest_plain), "one-bit-off-session-key") }
                2 => (SealCtx::new(&fc.exported_session_key, false).seal(&honest_plain), "client-to-server-keys"),
                _ => {
                    // right seal key, checksum from another message
                    let mut a = SealCtx::new(&fc.exported_session_key, true);
                    let other = a.seal(&key);
                    let mut b = SealCtx::new(&fc.exported_session_key, true);
                    let mut good = b.seal(&honest_plain);
                    good[4..12].copy_from_slice(&other[4..12]);
                    (good, "checksum-of-another-message")
                }
            };
            (vec![reply(v, t)], Expect::Reject, name.to_string())
        }
        4 => {
            // relay / MITM: the proof computed for another certificate's key
            let other = (fc.cert_index + 1 + ctx.choose("other_cert", (FIXTURES.len() - 1) as u64) as usize) % FIXTURES.len();
            let okey = subject_public_key(&cert_der(other));
            let t = fc.seal.seal(&increment_le(&okey));
            (vec![reply(v, t)], Expect::Reject, "relay-other-certificate".into())
        }
        5 => {
            // reflection of the client's own token
            (vec![reply(v, fc.client_pubkeyauth_token.to_vec())], Expect::Reject, "reflection".into())
        }
        6 => {
            let t = fc.seal.seal(&honest_plain);
            let mut r = reply(v, t);
            let at = ctx.choose("truncate_at", r.len() as u64) as usize;
            r.truncate(at);
            (vec![r], Expect::Reject, "truncated".into())
        }
        14 => {
            // two flipped bits: in the checksum at the same bit position of two bytes (cancels in any XOR-folded
            // comparison), or anywhere in the token
            let t = fc.seal.seal(&honest_plain);
            let mut r = reply(v, t.clone());
            let tok_off = r.len() - t.len();
            let name;
            if ctx.chance("two_bits_anywhere", 1, 2) {
                let a = ctx.choose("bit_a", (t.len() * 8) as u64) as usize;
                let mut b = ctx.choose("bit_b", (t.len() * 8) as u64) as usize;
                if b == a { b = (a + 8) % (t.len() * 8); }
                r[tok_off + a / 8] ^= 1 << (a % 8);
                r[tok_off + b / 8] ^= 1 << (b % 8);
                name = "two-bit-flip@token";
            } else {
                let bit = ctx.choose("cs_bit", 8);
                let i = 4 + ctx.choose("cs_byte_a", 8) as usize;
                let mut j = 4 + ctx.choose("cs_byte_b", 8) as usize;
                if j == i { j = 4 + (i - 4 + 1) % 8; }
                r[tok_off + i] ^= 1 << bit;
                r[tok_off + j] ^= 1 << bit;
                name = "two-bit-flip@checksum-same-position";
            }
            (vec![r], Expect::Reject, name.to_string())
        }
        12 => {
            // a strict prefix of key+1 (down to nothing), correctly sealed: numerically another value
            let keep = ctx.choose("prefix_len", honest_plain.len() as u64) as usize;
            let t = fc.seal.seal(&honest_plain[..keep]);
            (vec![reply(v, t)], Expect::Reject, format!("sealed-prefix-of-key+1({})", if keep == 0 { "empty" } else { "partial" }))
        }
        13 => {
            // a keyless server: a bare signature block without payload / the honest token cut down to its signature
            let which = ctx.choose("sig_only_kind", 3);
            let t: Vec<u8> = match which {
                0 => { let mut b = vec![1, 0, 0, 0]; b.extend(ctx.bytes("sig_only", 8)); b.extend_from_slice(&[0, 0, 0, 0]); b }
                1 => { let mut h = fc.seal.seal(&honest_plain); h.truncate(16); h }
                _ => { let mut h = fc.seal.seal(&honest_plain); let n = 16 + ctx.choose("cut_token", (h.len() - 16) as u64) as usize; h.truncate(n); h }
            };
            (vec![reply(v, t)], Expect::Reject, format!("signature-block-{}", if which == 2 { "plus-truncated-payload" } else { "only" }))
        }
        7 => {
            // wrong sequence number: still sealed and signed under the session keys -> the statement does not decide
            let t = fc.seal.seal_with_seq(&honest_plain, 1 + ctx.choose("seq", 5) as u32);
            (vec![reply(v, t)], Expect::Either, "wrong-sequence-number".into())
        }
        8 => {
            // numerically key+1 with high-order zero bytes appended / trailing garbage after the reply
            if ctx.chance("garbage_tail", 1, 2) {
                let t = fc.seal.seal(&honest_plain);
                let mut r = reply(v, t);
                r.extend_from_slice(&[0u8, 1, 2]);
                (vec![r], Expect::Either, "honest+trailing-garbage".into())
            } else {
                let mut p = honest_plain.clone();
                p.extend_from_slice(&[0, 0]);
                let t = fc.seal.seal(&p);
                (vec![reply(v, t)], Expect::Either, "key+1-with-zero-padding".into())
            }
        }
        _ => {
            // re-encodings of the envelope
            let t = fc.seal.seal(&honest_plain);
            let ver = der::tlv(0xa0, &der::int(v));
            let which = ctx.choose("reencoding", 8);
            let (r, e, name): (Vec<u8>, Expect, &str) = match which {
                0 => (der::tlv(0x30, &[ver.clone(), der::tlv(0xa3, &der::tlv_long(0x04, &t, 3))].concat()), Expect::Either, "non-minimal-length"),
                1 => { let mut b = vec![0x30, 0x80]; b.extend(&ver); b.extend(der::tlv(0xa3, &der::tlv(0x04, &t))); b.extend(&[0, 0]); (b, Expect::Either, "indefinite-length") }
                2 => (der::tlv(0x30, &[ver.clone(), der::tlv(*ctx.pick("wrong_tag", &[0xa2u8, 0xa1, 0xa4, 0xa5, 0x83]), &der::tlv(0x04, &t))].concat()), Expect::Reject, "wrong-context-tag"),
                3 => (der::tlv(0x30, &ver), Expect::Reject, "missing-pubKeyAuth"),
                4 => (der::tlv(0x30, &[ver.clone(), der::tlv(0xa3, &der::tlv(0x04, &[]))].concat()), Expect::Reject, "empty-octet-string"),
                5 => (cssp::build_ts_request(&TsRequest { version: v, nego_tokens: vec![vec![1, 2, 3]], auth_info: None, pub_key_auth: Some(t.clone()), error_code: None, client_nonce: None }), Expect::Either, "extra-negoTokens"),
                6 => (cssp::build_ts_request(&TsRequest { version: v, nego_tokens: vec![], auth_info: None, pub_key_auth: Some(t.clone()), error_code: Some(0xc000006d), client_nonce: None }), Expect::Either, "extra-errorCode"),
                _ => (cssp::build_ts_request(&TsRequest { version: v, nego_tokens: vec![], auth_info: None, pub_key_auth: None, error_code: Some(0xc000006d), client_nonce: None }), Expect::Reject, "errorCode-only"),
            };
            (vec![r], e, name.to_string())
        }
    }
}

fn walk_requested(env: &Env) -> bool {
    env.thorough && env.case % 2 == 0
}

pub fn run(env: &mut Env) -> Outcome {
    let ctxrc = env.ctx.clone();
    let (cfg, params, net) = {
        let mut ctx = ctxrc.borrow_mut();
        let mut cfg = ClientCfg::plain();
        cfg.nla = true;
        cfg.domain = gen_string(&mut ctx, "domain", 20, true);
        cfg.user = gen_string(&mut ctx, "user", 20, true);
        cfg.password = format!("C01-{}-SECRET", gen_string(&mut ctx, "password", 20, true));
        cfg.use_hash = ctx.chance("use_hash", 1, 5);
        cfg.restricted = ctx.chance("restricted", 1, 5);
        cfg.blank = ctx.chance("blank", 1, 5);
        let mut params = ServerParams::default_for(2);
        params.tls12 = ctx.chance("tls12_server", 1, 3);
        params.cert = if env.thorough { (env.case % FIXTURES.len() as u64) as usize } else { ctx.choose("cert", FIXTURES.len() as u64) as usize };
        let net = gen_benign_net(&mut ctx);
        ctx.step_budget = 100_000;
        (cfg, params, net)
    };
    let mut connector = cfg.connector();
    let mut special = Special::None;
    {
        let mut ctx = ctxrc.borrow_mut();
        crate::scen::session::seed_client_randomness(&mut ctx);
    }
    let which_special = if walk_requested(env) { 0 } else { ctxrc.borrow_mut().choose("special_history", 10) };
    if which_special == 1 {
        // an honest, complete NLA connection first, with the same connector object
        let pworld = World::new(ctxrc.clone(), ServerParams::default_for(2), crate::wire::NetCfg::benign());
        let pnla = { let mut ctx = ctxrc.borrow_mut(); crate::scen::session::make_nla(&mut ctx, &cfg) };
        let pres = pnla.results.clone();
        pworld.server.borrow_mut().nla = Some(Box::new(pnla));
        match Session::connect_with(pworld, &cfg, &mut connector) {
            Ok(mut s) => { if s.client.is_some() { let _ = s.shutdown(); } }
            Err(o) => return o,
        }
        match pres.borrow().exported_session_key {
            Some(k) => special = Special::EarlierSessionKey(k),
            None => return viol("c01/session-not-established", "earlier-connection", "the earlier honest connection did not complete NLA".to_string()),
        }
        ctxrc.borrow_mut().probe("earlier_connection_same_connector");
    } else if which_special == 2 {
        special = Special::Unprotected;
    }
    let world = World::new(ctxrc.clone(), params.clone(), net);
    let mut nla = {
        let mut ctx = ctxrc.borrow_mut();
        crate::scen::session::make_nla(&mut ctx, &cfg)
    };
    if special == Special::Unprotected {
        nla.challenge_flags_clear = 0x30;
        ctxrc.borrow_mut().probe("challenge_without_sign_and_seal");
    }
    let results = nla.results.clone();
    let verdict: Rc<RefCell<Option<(Expect, String)>>> = Rc::new(RefCell::new(None));
    let v2 = verdict.clone();
    // thorough tier: every other case walks the bit positions of the honest reply
    let walk = if env.thorough && env.case % 2 == 0 { Some((env.case / 2 / FIXTURES.len() as u64) as usize) } else { None };
    let special2 = special.clone();
    nla.final_reply = Some(Box::new(move |ctx: &mut Ctx, fc: &mut FinalCtx| {
        let (replies, expect, name) = forge(ctx, fc, walk, &special2);
        ctx.fault("final_reply_forgery");
        ctx.key_str(&name);
        ctx.key_add(fc.cert_index as u64);
        ctx.ev("fault", format!("final reply: {} (expect {:?})", name, expect));
        *v2.borrow_mut() = Some((expect, name));
        replies
    }));
    world.server.borrow_mut().nla = Some(Box::new(nla));
    let s = Session::connect_with(World { ctx: world.ctx.clone(), wire: world.wire.clone(), cfg: world.cfg.clone(), server: world.server.clone() }, &cfg, &mut connector);
    rdp::model::rnd::verif::install(None);
    let s = match s {
        Ok(s) => s,
        Err(o) => return o,
    };
    world.pump();
    world.pump();
    let res = results.borrow();
    if special == Special::Unprotected && verdict.borrow().is_none() {
        // the client's own pubKeyAuth was not sealed: it followed the server into an unprotected exchange
        if let Some(Err(e)) = &res.pubkeyauth_plain {
            return viol("c01/unprotected-exchange", "client-pubKeyAuth-not-sealed", format!("after a CHALLENGE without SIGN/SEAL the client's pubKeyAuth does not unseal under the session keys: {}", e));
        }
    }
    let srv = world.server.borrow();
    let (expect, name) = match verdict.borrow().clone() {
        Some(x) => x,
        None if special == Special::Unprotected && res.stage == 1 && s.connect_result.is_err() && res.auth_raw.is_empty() => {
            // the client refused the CHALLENGE without SIGN/SEAL outright and sent no AUTHENTICATE: nothing was disclosed
            ctxrc.borrow_mut().probe("unprotected_challenge_refused");
            ctxrc.borrow_mut().nontrivial = true;
            return Outcome::Pass;
        }
        None => {
            // the conversation never reached the final round: the honest part failed
            return viol("c01/session-not-established", &format!("stage {}", res.stage), format!("NLA stopped before the final round: connect {:?}, AUTHENTICATE verdict {:?}, strict errors {:?}", s.connect_result, res.auth_verdict.as_ref().map(|r| r.as_ref().map(|_| ()).map_err(|e| e.clone())), res.strict_errors));
        }
    };
    ctxrc.borrow_mut().probe("pubkeyauth_check_reached");
    env.cover.push(("cert", srv.p.cert as u64));
    let after = srv.app_in_total.saturating_sub(res.bytes_before_final_reply);
    match expect {
        Expect::Reject => {
            if s.connect_result.is_ok() {
                return viol("c01/forgery-accepted", &name, format!("final CredSSP reply '{}' was accepted: connect returned Ok", name));
            }
            if after != 0 || res.credentials.is_some() {
                return viol("c01/bytes-after-forgery", &name, format!("after the forged reply '{}' the client still wrote {} application bytes (credentials message: {})", name, after, res.credentials.is_some()));
            }
        }
        Expect::Either => {
            ctxrc.borrow_mut().probe("either_outcome_forgery");
        }
        Expect::Proceed => {
            if res.stage != 3 {
                return viol("c01/honest-reply-refused", &format!("{:?}", s.connect_result.as_ref().err()), format!("the honest reply was not followed by the credentials (connect: {:?})", s.connect_result));
            }
            // credentials only after the reply: decoded in a later pump than the one that sent it
            if srv.nla_done_pump <= srv.nla_final_pump {
                return viol("c01/credentials-before-proof", "same-pump", "the credentials were already on the wire when the server sent its proof".to_string());
            }
            match &res.credentials {
                Some(Ok(c)) => {
                    let empty = cfg.restricted || cfg.blank;
                    let want_pw = if empty || cfg.use_hash { Vec::new() } else { crate::refsrv::ntlm::utf16le(&cfg.password) };
                    if c.password != want_pw {
                        return viol("c01/credentials-content", "password", "TSCredentials password differs from the configuration".to_string());
                    }
                }
                other => return viol("c01/credentials-content", "unreadable", format!("TSCredentials: {:?}", other.as_ref().map(|r| r.as_ref().map(|_| ()).map_err(|e| e.clone())))),
            }
            ctxrc.borrow_mut().probe("honest_control_group");
        }
    }
    ctxrc.borrow_mut().nontrivial = true;
    Outcome::Pass
}
