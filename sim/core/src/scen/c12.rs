//! C12 — activation state machine: one finalization per demand-active, input gated.
//! A history over the 11-letter server alphabet is played against the real client; after every letter
//! an input attempt is made and everything the client wrote is decoded. The reference automaton is
//! set-valued where the statement is silent.

use crate::harness::{err_kind, guard, panic_outcome, viol, Outcome};
use crate::refsrv::build;
use crate::refsrv::bytes::Wr;
use crate::refsrv::strict::{ClientMsg, DataPdu, SharePdu};
use crate::scen::session::establish;
use crate::scen::Env;
use rdp::core::event::{KeyboardEvent, PointerButton, PointerEvent, RdpEvent};

#[derive(Clone, Copy, Debug, PartialEq, Eq, PartialOrd, Ord)]
enum St {
    WaitDemandActive,
    WaitSync,
    WaitCooperate,
    WaitGranted,
    WaitFontMap,
    Active,
}

const LETTERS: [&str; 11] = ["demand-active", "synchronize", "control-cooperate", "control-granted", "control-other", "font-map", "set-error-info", "unknown-data-pdu", "deactivate-all", "fast-path-bitmap", "fast-path-other"];

/// possible (next state, emits finalization) outcomes of the reference automaton
fn model(st: St, letter: usize) -> Vec<(St, bool)> {
    use St::*;
    match (st, letter) {
        (WaitDemandActive, 0) => vec![(WaitSync, true)],
        // the statement says nothing about a demand-active in the middle of a finalization
        (WaitSync, 0) | (WaitCooperate, 0) | (WaitGranted, 0) | (WaitFontMap, 0) => vec![(st, false), (WaitSync, true)],
        // in the active window input stays accepted until the next deactivate-all: no re-activation
        (Active, 0) => vec![(Active, false)],
        (WaitSync, 1) => vec![(WaitCooperate, false)],
        (WaitCooperate, 2) => vec![(WaitGranted, false)],
        (WaitGranted, 3) => vec![(WaitFontMap, false)],
        (WaitFontMap, 5) => vec![(Active, false)],
        (Active, 8) => vec![(WaitDemandActive, false)],
        // deactivate-all outside the active window: unchanged or reset, both within the statement
        (_, 8) => vec![(st, false), (WaitDemandActive, false)],
        _ => vec![(st, false)],
    }
}

pub fn run(env: &mut Env) -> Outcome {
    let ctxrc = env.ctx.clone();
    let (mut s, _cfg, params) = match establish(env, "c12", false) {
        Ok(x) => x,
        Err(o) => return o,
    };
    // connect consumed the licence; nothing else has been sent
    let len = { let mut ctx = ctxrc.borrow_mut(); if ctx.chance("long_history", 1, 12) { 100 + ctx.choose("history_len_long", 80) as usize } else { 1 + ctx.choose("history_len", 40) as usize } };
    let mut states: Vec<St> = vec![St::WaitDemandActive];
    let mut share_id = params.share_id;
    let mut da_count = 0u32;
    let uid = params.user_id;
    for step in 0..len {
        // the thorough tier walks all prefixes of length <= 3 (base-11 digits of the case number)
        let letter = {
            let mut ctx = ctxrc.borrow_mut();
            let drawn = if ctx.chance("bias_forward", 1, 2) {
                // bias towards the letter that advances the (first) model state, otherwise activations are rare
                match states[0] { St::WaitDemandActive => 0, St::WaitSync => 1, St::WaitCooperate => 2, St::WaitGranted => 3, St::WaitFontMap => 5, St::Active => ctx.choose("letter_active", 11) as usize }
            } else {
                ctx.choose("letter", 11) as usize
            };
            if env.thorough && step < 3 && env.case % 2 == 0 {
                let mut d = env.case / 2;
                for _ in 0..step { d /= 11; }
                (d % 11) as usize
            } else {
                drawn
            }
        };
        for st in &states {
            env.cover.push(("state_letter", (*st as u64) * 11 + letter as u64));
        }
        let hist_before = s.world.server.borrow().history.len();
        let bitmaps_before = s.bitmaps.len();
        let mut sent_rects = 0usize;
        // the letters this step delivers, in order (more than one when PDUs share a payload and both matter)
        let mut letters_applied: Vec<usize> = vec![letter];
        {
            let mut srv = s.world.server.borrow_mut();
            match letter {
                0 => {
                    da_count += 1;
                    // a server may well reuse the share id of the previous activation
                    if da_count == 1 || !ctxrc.borrow_mut().chance("reuse_share_id", 1, 3) {
                        share_id = params.share_id.wrapping_add(da_count * 0x10001);
                    } else {
                        ctxrc.borrow_mut().probe("share_id_reused");
                    }
                    srv.send_demand_active(share_id);
                }
                1 => srv.send_data_pdu("synchronize", 0x1f, &build::synchronize_payload(uid)),
                2 => srv.send_data_pdu("control-cooperate", 0x14, &build::control_payload(4, 0, 0)),
                3 => srv.send_data_pdu("control-granted", 0x14, &build::control_payload(2, uid, 0x03ea)),
                4 => {
                    let a = if ctxrc.borrow_mut().chance("other_action", 1, 2) { 1 } else { 3 };
                    srv.send_data_pdu("control-other", 0x14, &build::control_payload(a, 0, 0))
                }
                5 => srv.send_data_pdu("font-map", 0x28, &build::font_map_payload()),
                6 => {
                    // inside the active window a server may pack another PDU into the same payload: a harmless one
                    // in front of or behind the letter changes nothing for the automaton
                    srv.send_data_pdu("set-error-info", 0x2f, &build::set_error_info_payload(0x0000000c))
                }
                7 => {
                    let mut w = Wr::new();
                    w.u32le("ssi.infoType", 0).bytes("ssi.data", &[0u8; 12]);
                    let t = *ctxrc.borrow_mut().pick("unknown_type2", &[0x26u8, 0x36, 0x37, 0x22, 0x29]);
                    srv.send_data_pdu("unknown-data-pdu", t, &w)
                }
                8 => {
                    if states == vec![St::Active] && ctxrc.borrow_mut().chance("deactivate_and_demand_active_in_one_payload", 1, 6) {
                        // the active state reads every share-control PDU of a payload: the demand-active of the next
                        // activation may follow its deactivate-all directly
                        let old = srv.current_share_id;
                        da_count += 1;
                        share_id = params.share_id.wrapping_add(da_count * 0x10001);
                        let dea = build::deactivate_all_raw(&srv.p, old);
                        let da = build::demand_active_raw(&srv.p, share_id);
                        srv.current_share_id = share_id;
                        srv.share_ids.push(share_id);
                        srv.send_coalesced("deactivate-all+demand-active", &[dea, da]);
                        letters_applied.push(0);
                        ctxrc.borrow_mut().probe("deactivate_all_and_demand_active_in_one_payload");
                    } else if states == vec![St::Active] && ctxrc.borrow_mut().chance("coalesce_deactivate", 1, 3) {
                        let sid = srv.current_share_id;
                        let other = build::share_data_raw(&srv.p, sid, 0x2f, &build::set_error_info_payload(0));
                        let dea = build::deactivate_all_raw(&srv.p, sid);
                        let packing = ctxrc.borrow_mut().choose("deactivate_packing", 3);
                        match packing {
                            0 => srv.send_coalesced("error-info+deactivate-all", &[other, dea]),
                            1 => srv.send_coalesced("deactivate-all+error-info", &[dea, other]),
                            _ => {
                                // behind the deactivate-all a share-control PDU of a type the client does not implement (the
                                // server redirection packet, PDUTYPE_SERVER_REDIR_PKT): whatever `read` returns for it,
                                // the deactivate-all in front of it has closed the window
                                let mut body = Wr::new();
                                body.u16le("redir.pad", 0).u16le("redir.flags", 0x0400).u16le("redir.length", 12).u32le("redir.sessionId", 1).u32le("redir.redirFlags", 0);
                                let redir = build::share_control(&srv.p, 0x1a, &body);
                                srv.send_coalesced("deactivate-all+server-redirection", &[dea, redir]);
                                ctxrc.borrow_mut().probe("deactivate_all_followed_by_unimplemented_pdu");
                            }
                        }
                        ctxrc.borrow_mut().probe("coalesced_deactivate_all");
                    } else if ctxrc.borrow_mut().chance("long_source_descriptor", 1, 8) {
                        // the source descriptor is a variable-length field
                        let n = *ctxrc.borrow_mut().pick("dea_src_len", &[8170usize, 8181, 8192, 9000, 16384, 30000]);
                        let raw = build::deactivate_all_raw_with(&srv.p, srv.current_share_id, &vec![0x41u8; n]);
                        let w = build::send_data_indication(&srv.p, &raw);
                        srv.queue("deactivate-all(long source descriptor)", &w);
                    } else {
                        srv.send_deactivate_all()
                    }
                }
                9 => {
                    let (u, r) = { let mut ctx = ctxrc.borrow_mut(); crate::scen::c10::gen_fastpath_pdu(&mut ctx, 300, true) };
                    sent_rects = r.len();
                    srv.send_fastpath("fast-path-bitmap", &u, false)
                }
                _ => {
                    let mut d = Wr::new();
                    d.u16le("ptr.x", 1).u16le("ptr.y", 2);
                    let u = build::fp_update(0x8, &d);
                    srv.send_fastpath("fast-path-other", &u, false)
                }
            }
            srv.flush();
        }
        let read_res = match s.read_once() {
            Err(o) => return o,
            Ok(r) => r,
        };
        let _ = read_res; // Ok / Err of read is not constrained by the statement
        s.world.pump();
        // what did the client emit in reaction?
        let emitted: Vec<String> = s.world.server.borrow().history[hist_before..].iter()
            .filter(|(_, _, m)| !matches!(m, ClientMsg::Share { pdu: SharePdu::Data { pdu, .. }, .. } if pdu.is_unrelated_legal()))
            .map(|(_, _, m)| m.name()).collect();
        let finalization = ["confirm-active", "synchronize", "control(4)", "control(1)", "font-list"];
        let emitted_final = emitted.iter().map(|e| e.as_str()).eq(finalization.iter().cloned());
        if !emitted.is_empty() && !emitted_final {
            return viol("c12/emission", &format!("after {}: {}", LETTERS[letter], emitted.join("+")), format!("step {} ({}) in model states {:?}: the client emitted [{}], which is neither nothing nor exactly one confirm-active + finalization", step, LETTERS[letter], states, emitted.join(", ")));
        }
        if emitted_final {
            // identifiers of the emission
            for (_, _, m) in s.world.server.borrow().history[hist_before..].iter() {
                let sid = match m {
                    ClientMsg::Share { pdu: SharePdu::ConfirmActive(ca), .. } => ca.share_id,
                    ClientMsg::Share { pdu: SharePdu::Data { share_id, .. }, .. } => *share_id,
                    _ => share_id,
                };
                if sid != share_id {
                    return viol("c12/share-id", "finalization", format!("step {}: finalization carries share id {:#x}, the demand-active assigned {:#x}", step, sid, share_id));
                }
            }
        }
        let mut next: Vec<St> = Vec::new();
        {
            // (state, has emitted a finalization so far) through the letters of this step
            let mut cands: Vec<(St, bool)> = states.iter().map(|s| (*s, false)).collect();
            for l in &letters_applied {
                let mut nx: Vec<(St, bool)> = Vec::new();
                for (st, em) in &cands {
                    for (n, emits) in model(*st, *l) {
                        if *em && emits { continue; }
                        if !nx.contains(&(n, *em || emits)) { nx.push((n, *em || emits)); }
                    }
                }
                cands = nx;
            }
            for (n, em) in cands {
                if em == emitted_final && !next.contains(&n) {
                    next.push(n);
                }
            }
        }
        if next.is_empty() {
            return viol("c12/emission", &format!("{:?} x {} -> {}", states, LETTERS[letter], if emitted_final { "finalization" } else { "nothing" }), format!("step {}: in model states {:?} the letter {} {} a confirm-active + finalization, the client did the opposite (history so far drawn from the tape)", step, states, LETTERS[letter], if emitted_final { "must not produce" } else { "must produce" }));
        }
        // bitmap events only inside the window
        let new_bitmaps = s.bitmaps.len() - bitmaps_before;
        if new_bitmaps > 0 {
            let before_cands = next.len();
            next.retain(|n| *n == St::Active && letter == 9);
            if next.is_empty() {
                return viol("c12/bitmap-outside-window", LETTERS[letter], format!("step {}: {} bitmap events delivered although no model state ({} candidates) is inside the active window", step, new_bitmaps, before_cands));
            }
        } else if letter == 9 && sent_rects > 0 {
            // rectangles were sent and none delivered: only consistent with not being active
            next.retain(|n| *n != St::Active);
            if next.is_empty() {
                return viol("c12/bitmap-dropped-inside-window", "fast-path-bitmap", format!("step {}: {} rectangles sent in the active window, none delivered", step, sent_rects));
            }
        }
        next.sort();
        states = next;
        // input attempt
        let lenient = ctxrc.borrow_mut().chance("try_write", 1, 2);
        let ev = if step % 2 == 0 { RdpEvent::Pointer(PointerEvent { x: step as u16, y: 7, button: PointerButton::None, down: false }) } else { RdpEvent::Key(KeyboardEvent { code: 0x1c, down: true }) };
        let hist_before = s.world.server.borrow().history.len();
        let before = s.world.server.borrow().app_in_total;
        let client = s.client.as_mut().unwrap();
        let res = guard(|| if lenient { client.try_write(ev) } else { client.write(ev) });
        let res = match res { Ok(r) => r, Err(p) => return panic_outcome(&p) };
        s.world.pump();
        let after = s.world.server.borrow().app_in_total;
        let inputs: Vec<String> = s.world.server.borrow().history[hist_before..].iter().map(|(_, _, m)| m.name()).collect();
        ctxrc.borrow_mut().ev("drv", format!("step {} {} -> emitted [{}]; input via {} -> {} / {} bytes; model {:?}", step, LETTERS[letter], emitted.join(","), if lenient { "try_write" } else { "write" }, match &res { Ok(_) => "Ok".to_string(), Err(e) => err_kind(e) }, after - before, states));
        let accepted = inputs.len() == 1 && inputs[0] == "input(1)" && res.is_ok();
        let refused = after == before && inputs.is_empty() && (if lenient { res.is_ok() } else { matches!(&res, Err(rdp::model::error::Error::RdpError(e)) if e.kind() == rdp::model::error::RdpErrorKind::InvalidAutomata) });
        if !accepted && !refused {
            return viol("c12/input-attempt", &format!("{} {}B [{}]", match &res { Ok(_) => "Ok".to_string(), Err(e) => err_kind(e) }, after - before, inputs.join("+")), format!("step {}: input attempt via {} returned {} and put {} bytes / [{}] on the wire: neither a clean acceptance nor a clean refusal", step, if lenient { "try_write" } else { "write" }, match &res { Ok(_) => "Ok".to_string(), Err(e) => err_kind(e) }, after - before, inputs.join(", ")));
        }
        let mut next: Vec<St> = states.iter().cloned().filter(|n| (*n == St::Active) == accepted).collect();
        if next.is_empty() {
            return viol("c12/input-gate", &format!("{:?} {}", states, if accepted { "accepted" } else { "refused" }), format!("step {} (after {}): input was {} although the model states are {:?}", step, LETTERS[letter], if accepted { "accepted" } else { "refused" }, states));
        }
        next.sort();
        states = next;
        if states.contains(&St::Active) {
            ctxrc.borrow_mut().probe("reached_active");
        }
    }
    if let Some(o) = crate::scen::session::c04_violation(&s.world.server.borrow()) {
        return o;
    }
    let mut ctx = ctxrc.borrow_mut();
    ctx.key_add(len as u64);
    ctx.key_add(da_count as u64);
    ctx.nontrivial = true;
    Outcome::Pass
}


/// `c12/confirm_active_limit`: the answer to a demand-active at the edge of what one MCS send-data request can carry.
/// The confirm-active PDU contains the client name; 16383 octets of user data is the most a send-data request announces
/// with the two-octet PER length (rdp-rs refuses more, repair P20). Two connections with names of 1000 and 1001
/// characters measure the size of the PDU and what a character adds to it; a third connection uses the name that puts
/// the PDU at 16383 - 2 .. 16383 + 2 octets: up to 16383 the demand-active must be answered (one confirm-active plus
/// finalization of exactly the predicted size), above it a refusal is accepted.
pub fn run_limit(env: &mut Env) -> Outcome {
    use crate::refsrv::build::ServerParams;
    use crate::refsrv::strict::{largest_send_data_request, reset_largest_send_data_request};
    use crate::refsrv::world::World;
    use crate::scen::session::{gen_benign_net, ClientCfg, Session};
    let ctxrc = env.ctx.clone();
    let (params, delta) = {
        let mut ctx = ctxrc.borrow_mut();
        let params = if ctx.chance("limit_params", 1, 2) { ServerParams::generate(&mut ctx, 1) } else { ServerParams::default_for(1) };
        let delta = ctx.choose("limit_delta", 5) as i64 - 2;
        ctx.step_budget = 3_000_000;
        ctx.key_add((delta + 2) as u64);
        (params, delta)
    };
    let mut measure = |name_len: usize| -> Result<(Result<(), String>, usize, Vec<String>), Outcome> {
        let net = { let mut ctx = ctxrc.borrow_mut(); gen_benign_net(&mut ctx) };
        let world = World::new(ctxrc.clone(), params.clone(), net);
        let mut cfg = ClientCfg::plain();
        cfg.name = "n".repeat(name_len);
        reset_largest_send_data_request();
        let mut s = Session::connect(world, &cfg)?;
        let res = match &s.connect_result {
            Err(k) => Err(format!("connect: {}", k)),
            Ok(_) => match s.activate(40)? { Ok(()) => Ok(()), Err(k) => Err(format!("activation: {}", k)) },
        };
        let names: Vec<String> = s.world.server.borrow().history.iter().map(|(_, _, m)| m.name()).collect();
        if s.client.is_some() { let _ = s.shutdown(); }
        Ok((res, largest_send_data_request(), names))
    };
    let (r0, m0, _) = match measure(1000) { Ok(x) => x, Err(o) => return o };
    let (r1, m1, _) = match measure(1001) { Ok(x) => x, Err(o) => return o };
    if r0.is_err() || r1.is_err() || m1 <= m0 || m0 < 1000 {
        // the measurement itself did not work (a client that does not put its name into the confirm-active, for instance):
        // nothing to say here, connecting is C03's business
        return Outcome::Pass;
    }
    let slope = m1 - m0;
    // name length that puts the PDU at 0x3fff + delta (rounded down to what the slope allows)
    let target = 0x3fff as i64 + delta;
    let n = 1000 + ((target - m0 as i64) / slope as i64) as usize;
    let predicted = m0 + slope * (n - 1000);
    let (r, m, names) = match measure(n) { Ok(x) => x, Err(o) => return o };
    {
        let mut ctx = ctxrc.borrow_mut();
        ctx.nontrivial = true;
        ctx.ev("drv", format!("name of {} characters: confirm-active predicted at {} octets of user data, result {:?}, largest send-data request seen {}", n, predicted, r, m));
        if predicted == 0x3fff { ctx.probe("confirm_active_of_exactly_16383_octets"); }
        if predicted > 0x3fff { ctx.probe("confirm_active_above_16383_octets"); }
    }
    if predicted <= 0x3fff {
        let finalization = ["confirm-active", "synchronize", "control(4)", "control(1)", "font-list"];
        let answered = names.windows(5).any(|w| w.iter().map(|e| e.as_str()).eq(finalization.iter().cloned()));
        if r.is_err() || !answered {
            return viol("c12/demand-active-unanswered", "confirm-active that fits one send-data request", format!("client name of {} characters: the confirm-active PDU takes {} octets of user data (16383 fit a send-data request), the demand-active was not answered: {:?}; client messages: {}", n, predicted, r, names.join(", ")));
        }
        if m != predicted {
            return viol("c12/confirm-active-size", "differs from the measured layout", format!("client name of {} characters: largest send-data request {} octets, predicted {}", n, m, predicted));
        }
    } else if r.is_ok() && m > 0x3fff {
        return viol("c12/emission", "send-data request above 16383 octets", format!("client name of {} characters: a send-data request of {} octets was framed", n, m));
    }
    Outcome::Pass
}
