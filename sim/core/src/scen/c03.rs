//! C03 — connection sequence conforms end to end for every server and configuration.
//! Real: the whole rdp library + native-tls/OpenSSL on both ends. Simulated: TCP, the server.

use crate::harness::{viol, Outcome};
use crate::refsrv::build::ServerParams;
use crate::refsrv::server::{Packing, Phase};
use crate::refsrv::world::World;
use crate::scen::session::{gen_benign_net, gen_client_cfg, sequence_oracle, Session};
use crate::scen::Env;
use rdp::core::event::{KeyboardEvent, PointerButton, PointerEvent, RdpEvent};

pub fn run(env: &mut Env) -> Outcome {
    run_mode(env, false)
}

pub fn run_mode(env: &mut Env, c04_mode: bool) -> Outcome {
    let ctxrc = env.ctx.clone();
    let (cfg, params, net, packing, second_activation, n_inputs) = {
        let mut ctx = ctxrc.borrow_mut();
        let mut cfg = gen_client_cfg(&mut ctx, c04_mode || ctx_unicode(env.case), crate::scen::nla_available());
        if c04_mode && ctx.chance("over_long_string", 1, 10) {
            // over-long credentials or client name: the Client Info / Confirm Active PDU grows beyond what one MCS send
            // data request can announce (16383 octets of user data); the client may refuse, it must not mis-frame
            let n = *ctx.pick("over_long_units", &[8100usize, 8150, 8200, 12000, 16300, 16400, 20000, 32600]);
            match ctx.choose("over_long_field", 4) {
                0 => cfg.password = "p".repeat(n),
                1 => cfg.user = "u".repeat(n),
                2 => cfg.domain = "d".repeat(n),
                _ => cfg.name = if ctx.chance("name_at_u16_edge", 1, 2) { "n".repeat(65136 + ctx.choose("name_edge", 12) as usize) } else { "n".repeat(2 * n) },
            }
            ctx.probe("over_long_string");
            ctx.step_budget = 2_000_000;
        }
        let selected = if cfg.nla && ctx.chance("select_hybrid", 3, 4) { 2 } else { 1 };
        let mut params = ServerParams::generate(&mut ctx, selected);
        if cfg.check_cert {
            // certificate checking on: the conforming server presents a certificate the client trusts
            params.cert = *ctx.pick("trusted_cert", &[0usize, 1, 3]);
            ctx.probe("certificate_checked");
        }
        let net = gen_benign_net(&mut ctx);
        let packing = match ctx.choose("packing", 4) { 0 => Packing::OnePerRecord, 1 => Packing::Coalesce, 2 => Packing::Split, _ => Packing::Mixed };
        let second = ctx.chance("second_activation", 1, 3);
        let n_inputs = ctx.choose("n_inputs", 4);
        ctx.step_budget = ctx.step_budget.max(200_000);
        (cfg, params, net, packing, second, n_inputs)
    };
    {
        let mut ctx = ctxrc.borrow_mut();
        ctx.key_add(params.selected_protocol as u64);
        ctx.key_add(params.user_id as u64);
        ctx.key_add(params.io_channel as u64);
        ctx.key_add(params.version as u64);
        ctx.key_add(params.license_kind as u64);
        ctx.key_add(params.caps.len() as u64);
        ctx.key_add(params.core_optional as u64);
        ctx.key_add(params.block_order[0] as u64 * 3 + params.block_order[1] as u64);
        ctx.key_add(cfg.layout as u64);
        ctx.key_add((cfg.nla as u64) | (cfg.restricted as u64) << 1 | (cfg.blank as u64) << 2 | (cfg.auto_logon as u64) << 3 | (cfg.use_hash as u64) << 4);
        ctx.key_add(cfg.name.chars().count() as u64);
        ctx.key_str(&format!("{:?}{:?}{:?}", net.read_mode, net.write_mode, packing));
    }
    env.cover.push(("user_id", params.user_id as u64));
    env.cover.push(("version", params.version as u64));
    env.cover.push(("layout", cfg.layout as u64));
    let world = World::new(ctxrc.clone(), params.clone(), net);
    world.server.borrow_mut().packing = packing;
    // C04 only: a server that (legally, like pre-Vista ones) sends no MsvAvTimestamp. The client may refuse it, but
    // whatever token it emits must still be well formed.
    let no_timestamp = c04_mode && cfg.nla && ctxrc.borrow_mut().chance("server_without_timestamp", 1, 8);
    let nla_res = if cfg.nla { Some(crate::scen::install_nla_custom(&world, &cfg, |n| { if no_timestamp { n.challenge_cfg.av_pairs.retain(|(id, _)| *id != 7); } })) } else { None };
    if no_timestamp { ctxrc.borrow_mut().probe("challenge_without_timestamp"); }
    let mut s = match Session::connect(world, &cfg) {
        Ok(s) => s,
        Err(o) => return o,
    };
    let site_cfg = format!("nla={} sel={}", cfg.nla, params.selected_protocol);
    if let Err(k) = &s.connect_result {
        if c04_mode {
            if let Some(o) = crate::scen::session::c04_violation(&s.world.server.borrow()) { return o; }
            if let Some(r) = &nla_res {
                let r = r.borrow();
                if let Some(e) = r.strict_errors.first() { return viol("c04/strict-parse", e, format!("strict parser rejected a CredSSP/NTLM token: {}", e)); }
                if let Some(Err(e)) = &r.auth_verdict { if e.starts_with("field") || e.starts_with("temp") { return viol("c04/ntlm-authenticate", e.split(':').next().unwrap_or("?"), format!("AUTHENTICATE token rejected: {}", e)); } }
            }
            if no_timestamp { ctxrc.borrow_mut().nontrivial = true; }
            // connect failures are C03's business
            return Outcome::Pass;
        }
        let srv = s.world.server.borrow();
        return viol("c03/connect-failed", &format!("{} at {:?}", k, srv.phase), format!("connect returned {} against a conforming server ({}; io_channel={} user_id={} version={:#x}); server phase {:?}; history: {}", k, site_cfg, params.io_channel, params.user_id, params.version, srv.phase, crate::scen::session::history_names(&srv)));
    }
    // activation
    match s.activate(40) {
        Err(o) => return o,
        Ok(Err(k)) => {
            if c04_mode { return c04_or_pass(&s); }
            return viol("c03/activation-failed", &k, format!("RdpClient::read failed during activation: {} ; history: {}", k, crate::scen::session::history_names(&s.world.server.borrow())));
        }
        Ok(Ok(())) => {}
    }
    let mut expected_act = 1;
    if second_activation {
        ctxrc.borrow_mut().probe("reactivation");
        let new_id = if ctxrc.borrow_mut().chance("reuse_share_id", 1, 3) { params.share_id } else { params.share_id ^ 0x00010000 ^ (env.case as u32 & 0xff) };
        {
            let mut srv = s.world.server.borrow_mut();
            srv.phase = Phase::Activation;
            if ctxrc.borrow_mut().chance("coalesced_deactivate", 1, 3) {
                // a server may pack the deactivate-all behind (or in front of) another PDU of the same payload
                let sid = srv.current_share_id;
                let other = crate::refsrv::build::share_data_raw(&srv.p, sid, 0x2f, &crate::refsrv::build::set_error_info_payload(0));
                let dea = crate::refsrv::build::deactivate_all_raw(&srv.p, sid);
                if ctxrc.borrow_mut().chance("deactivate_last", 1, 2) { srv.send_coalesced("error-info+deactivate-all", &[other, dea]); } else { srv.send_coalesced("deactivate-all+error-info", &[dea, other]); }
                ctxrc.borrow_mut().probe("coalesced_deactivate_all");
            } else {
                srv.send_deactivate_all();
            }
            srv.send_demand_active(new_id);
            srv.flush();
        }
        expected_act = 2;
        match s.activate(40) {
            Err(o) => return o,
            Ok(Err(k)) => {
                if c04_mode { return c04_or_pass(&s); }
                return viol("c03/reactivation-failed", &k, format!("read failed during the second activation: {}", k));
            }
            Ok(Ok(())) => {}
        }
    }
    if second_activation && ctxrc.borrow_mut().chance("third_activation", 1, 3) {
        let id3 = params.share_id.wrapping_add(0x00770000);
        {
            let mut srv = s.world.server.borrow_mut();
            srv.phase = Phase::Activation;
            srv.send_deactivate_all();
            srv.send_demand_active(id3);
            srv.flush();
        }
        expected_act = 3;
        ctxrc.borrow_mut().probe("third_activation");
        match s.activate(40) {
            Err(o) => return o,
            Ok(Err(k)) => {
                if c04_mode { return c04_or_pass(&s); }
                return viol("c03/reactivation-failed", &k, format!("read failed during the third activation: {}", k));
            }
            Ok(Ok(())) => {}
        }
    }
    // a few input events: they must carry the identifiers of the latest activation
    for j in 0..n_inputs {
        let ev = if j % 2 == 0 {
            RdpEvent::Pointer(PointerEvent { x: 10 + j as u16, y: 20, button: PointerButton::Left, down: true })
        } else {
            RdpEvent::Key(KeyboardEvent { code: 0x1e, down: false })
        };
        let client = s.client.as_mut().unwrap();
        let r = crate::harness::guard(|| client.write(ev));
        match r {
            Err(p) => return crate::harness::panic_outcome(&p),
            Ok(Err(e)) => {
                if c04_mode { return c04_or_pass(&s); }
                return viol("c03/input-refused", &crate::harness::err_kind(&e), format!("input refused in an active session: {}", crate::harness::err_kind(&e)));
            }
            Ok(Ok(())) => {}
        }
    }
    match s.shutdown() {
        Err(o) => return o,
        Ok(Err(k)) => {
            if !c04_mode { return viol("c03/shutdown-failed", &k, format!("shutdown returned {}", k)); }
        }
        Ok(Ok(())) => {}
    }
    s.world.pump();
    s.world.pump();
    let srv = s.world.server.borrow();
    if c04_mode {
        if let Some(o) = crate::scen::session::c04_violation(&srv) { return o; }
        if let Some(o) = crate::scen::c04::string_oracle(&srv, &cfg) { return o; }
        if let Some(r) = &nla_res {
            let r = r.borrow();
            if let Some(e) = r.strict_errors.first() { return viol("c04/strict-parse", e, format!("strict parser rejected a CredSSP/NTLM token: {}", e)); }
            if let Some(Err(e)) = &r.auth_verdict { return viol("c04/ntlm-authenticate", e.split(':').next().unwrap_or("?"), format!("AUTHENTICATE token rejected: {}", e)); }
            if let Some(Err(e)) = &r.credentials { return viol("c04/tscredentials", e.split(':').next().unwrap_or("?"), format!("TSCredentials rejected: {}", e)); }
        }
        ctxrc.borrow_mut().nontrivial = true;
        return Outcome::Pass;
    }
    if ctxrc.borrow().budget_exceeded {
        return viol("c03/liveness", "step-budget", "the run exceeded its step budget".to_string());
    }
    if params.selected_protocol == 2 {
        let stage = nla_res.as_ref().map(|r| r.borrow().stage).unwrap_or(0);
        if stage != 3 { return viol("c03/sequence", "missing/credssp-messages", format!("CredSSP stopped at stage {} of 3", stage)); }
        ctxrc.borrow_mut().probe("nla_session");
    }
    // a message the server cannot even frame (TPKT / X.224 / MCS / BER level) is not part of any sequence; field-level
    // complaints of the strict decoders are C04's business
    if let Some((_, key, frame)) = srv.decode_errors.iter().find(|(_, k, _)| k.starts_with("tpkt/") || k.starts_with("x224/") || k.starts_with("mcs/") || k.starts_with("ber/")) {
        return viol("c03/sequence", &format!("unframeable/{}", key), format!("the server cannot frame a client message: {} ; frame {}", key, crate::tape::hex_short(frame)));
    }
    if let Some((site, detail)) = sequence_oracle(&srv, &cfg, true, expected_act) {
        return viol("c03/sequence", &site, detail);
    }
    if !srv.protocol_errors.is_empty() {
        return viol("c03/server-automaton", &srv.protocol_errors[0], format!("the reference server's automaton objected: {:?}", srv.protocol_errors));
    }
    if !srv.client_closed {
        return viol("c03/no-close", "after-shutdown", "the connection was not closed after shutdown".to_string());
    }
    let mut ctx = ctxrc.borrow_mut();
    ctx.nontrivial = true;
    Outcome::Pass
}

fn c04_or_pass(s: &Session) -> Outcome {
    if let Some(o) = crate::scen::session::c04_violation(&s.world.server.borrow()) { return o; }
    Outcome::Pass
}

fn ctx_unicode(case: u64) -> bool {
    case % 3 == 0
}
