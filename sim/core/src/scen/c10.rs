//! C10 — every bitmap rectangle the server sends reaches the application exactly once.

use crate::harness::{viol, Outcome};
use crate::refsrv::build::{self, Rect};
use crate::refsrv::bytes::Wr;
use crate::scen::session::establish;
use crate::scen::Env;
use crate::tape::Ctx;

fn gen_rect(ctx: &mut Ctx, budget: usize) -> Rect {
    let flags = *ctx.pick("bmp_flags", &[0u16, 0x0001, 0x0401, 0x0400]);
    let with_hdr = flags & 1 != 0 && flags & 0x400 == 0;
    let overhead = 18 + if with_hdr { 8 } else { 0 };
    let room = budget.saturating_sub(overhead);
    let dl = match ctx.choose("bmp_len_c", 6) {
        0 => 0,
        1 => 1,
        2 => ctx.choose("bmp_len_s", 64) as usize,
        3 => room,
        4 => room.saturating_sub(ctx.choose("bmp_len_e", 3) as usize),
        _ => ctx.choose("bmp_len_r", room as u64 + 1) as usize,
    }.min(room);
    let a = ctx.choose("bmp_fill", 256) as u8;
    Rect {
        left: ctx.u16_boundary("bmp_l"), top: ctx.u16_boundary("bmp_t"), right: ctx.u16_boundary("bmp_r"), bottom: ctx.u16_boundary("bmp_b"),
        width: ctx.u16_boundary("bmp_w"), height: ctx.u16_boundary("bmp_h"),
        bpp: *ctx.pick("bmp_bpp", &[32u16, 16, 24, 15, 8, 0, 1, 65535]),
        flags,
        data: (0..dl).map(|i| a.wrapping_add(i as u8).wrapping_mul(3)).collect(),
        hdr: (ctx.u16_boundary("bmp_scan"), ctx.u16_boundary("bmp_unc")),
    }
}

fn rect_wire_len(r: &Rect) -> usize {
    18 + r.data.len() + if r.flags & 1 != 0 && r.flags & 0x400 == 0 { 8 } else { 0 }
}

/// one fast-path PDU: returns (updates bytes, rectangles it carries in wire order)
pub fn gen_fastpath_pdu(ctx: &mut Ctx, max_total: usize, want_bitmap: bool) -> (Wr, Vec<Rect>) {
    let mut updates = Wr::new();
    let mut rects: Vec<Rect> = Vec::new();
    let nupd = if want_bitmap { 1 + ctx.choose("n_updates", 8) as usize } else if ctx.chance("many_updates", 1, 16) { 9 + ctx.choose("n_updates_many", 40) as usize } else { ctx.choose("n_updates", 9) as usize };
    // a flood of empty updates in front of everything else (they are 3 bytes each)
    if !want_bitmap && max_total > 9000 && ctx.chance("flood_of_empty_updates", 1, 6) {
        let n = 2000 + ctx.choose("flood_n", 700) as usize;
        for i in 0..n {
            let code = if i % 2 == 0 { 0x3 } else { 0x5 };
            updates.append(&build::fp_update(code, &Wr::new()));
        }
        ctx.probe("flood_of_empty_updates");
    }
    let mut room = max_total.saturating_sub(updates.len());
    for u in 0..nupd {
        if room < 8 {
            break;
        }
        let kind = if want_bitmap && u == 0 { 0 } else { ctx.choose("upd_kind", 4) };
        if kind <= 1 {
            // bitmap update
            let nrect = match ctx.choose("n_rect_c", 16) { 0..=3 => 1, 4..=7 => 0, 8..=11 => 2 + ctx.choose("n_rect", 5) as usize, 12..=14 => ctx.choose("n_rect_m", 41) as usize, _ => 200 + ctx.choose("n_rect_many", 120) as usize };
            let mut rs = Vec::new();
            let mut avail = room.min(65535) - 7;
            for _ in 0..nrect {
                if avail < 26 {
                    break;
                }
                // leave space for the remaining rectangles
                let share = if nrect > 100 { avail.min(40) } else if ctx.chance("rect_big", 1, 4) { avail } else { avail.min(600) };
                // a server may send the very same rectangle twice in a row (a cursor blinking, a repaint): both are to be delivered
                let prev: Option<Rect> = rs.last().or(rects.last()).cloned();
                let r = match prev {
                    Some(p) if rect_wire_len(&p) <= avail && ctx.chance("rect_repeats_previous", 1, 8) => { ctx.probe("identical_rectangle_repeated"); p }
                    _ => gen_rect(ctx, share),
                };
                avail -= rect_wire_len(&r);
                rs.push(r);
            }
            let data = build::bitmap_update_data(&rs);
            let upd = build::fp_update(0x1, &data);
            room -= upd.len();
            updates.append(&upd);
            rects.extend(rs);
        } else {
            let code = *ctx.pick("other_code", &[0x5u8, 0x6, 0x8, 0x9, 0xA, 0xB, 0x3, 0x2, 0x0, 0x4, 0x7, 0xC, 0xD, 0xE, 0xF]);
            let mut data = Wr::new();
            match code {
                0x3 | 0x5 | 0x6 => {}
                0x8 => { data.u16le("ptr.x", ctx.u16_boundary("ptr_x")).u16le("ptr.y", ctx.u16_boundary("ptr_y")); }
                0xA => { data.u16le("ptr.cacheIndex", ctx.choose("ptr_ci", 25) as u16); }
                0x9 | 0xB => {
                    if code == 0xB { data.u16le("ptr.xorBpp", 32); }
                    let la = ctx.choose("ptr_and", 40) as usize;
                    let lx = ctx.choose("ptr_xor", 200) as usize;
                    data.u16le("ptr.cacheIndex", 1).u32le("ptr.hotSpot", 0).u16le("ptr.width", 8).u16le("ptr.height", 8).u16le("ptr.lengthAndMask", la as u16).u16le("ptr.lengthXorMask", lx as u16);
                    data.bytes("ptr.xor", &vec![0x5a; lx]).bytes("ptr.and", &vec![0xa5; la]);
                    if ctx.chance("ptr_pad", 1, 2) { data.u8("ptr.pad", 0); }
                }
                _ => {
                    let n = ctx.choose("other_len", 120.min(room as u64 - 3)) as usize;
                    let b = ctx.bytes("other_data", n.min(16));
                    let mut v: Vec<u8> = b.iter().cycle().take(n).cloned().collect();
                    // make opaque data look like a bitmap update on purpose
                    if n >= 4 && ctx.chance("other_looks_like_bitmap", 1, 2) { v[0] = 1; v[1] = 0; v[2] = 1; v[3] = 0; }
                    data.bytes("other.data", &v);
                }
            }
            if data.len() + 3 > room {
                break;
            }
            let upd = build::fp_update(code, &data);
            room -= upd.len();
            updates.append(&upd);
        }
    }
    (updates, rects)
}

/// a fast-path PDU whose body (everything after the 3-byte long-form header) is exactly `body` bytes: one bitmap
/// update with one rectangle
pub fn sized_bitmap_pdu(ctx: &mut Ctx, body: usize) -> (Wr, Vec<Rect>) {
    let data_len = body.saturating_sub(3 + 4 + 18);
    let a = ctx.choose("bmp_fill", 256) as u8;
    let r = Rect { left: 1, top: 2, right: 3, bottom: 4, width: 64, height: 64, bpp: 32, flags: 0, data: (0..data_len).map(|i| a.wrapping_add(i as u8)).collect(), hdr: (0, 0) };
    let upd = build::fp_update(0x1, &build::bitmap_update_data(&[r.clone()]));
    (upd, vec![r])
}

pub fn compare_rects(got: &[rdp::core::event::BitmapEvent], want: &[Rect]) -> Option<(String, String)> {
    let n = got.len().min(want.len());
    for i in 0..n {
        let g = &got[i];
        let w = &want[i];
        let fields = [("destLeft", g.dest_left, w.left), ("destTop", g.dest_top, w.top), ("destRight", g.dest_right, w.right), ("destBottom", g.dest_bottom, w.bottom), ("width", g.width, w.width), ("height", g.height, w.height), ("bitsPerPixel", g.bpp, w.bpp)];
        for (name, a, b) in fields.iter() {
            if a != b {
                return Some((format!("field/{}", name), format!("rectangle #{}: {} = {} but {} was sent", i, name, a, b)));
            }
        }
        if g.is_compress != (w.flags & 1 != 0) {
            return Some(("field/compression-flag".into(), format!("rectangle #{}: is_compress={} but flags={:#x}", i, g.is_compress, w.flags)));
        }
        if g.data != w.data {
            let hdr = w.flags & 1 != 0 && w.flags & 0x400 == 0;
            return Some((format!("data/{}", if hdr { "with-compression-header" } else { "without-compression-header" }), format!("rectangle #{}: {} data bytes delivered, {} sent (flags {:#x}); first bytes {} vs {}", i, g.data.len(), w.data.len(), w.flags, crate::tape::hex_short(&g.data), crate::tape::hex_short(&w.data))));
        }
    }
    if got.len() > want.len() {
        return Some(("count/extra-events".into(), format!("{} bitmap events delivered, {} rectangles sent", got.len(), want.len())));
    }
    if got.len() < want.len() {
        return Some(("count/missing-events".into(), format!("{} bitmap events delivered, {} rectangles sent (first missing: #{} with {} data bytes, flags {:#x})", got.len(), want.len(), got.len(), want[got.len()].data.len(), want[got.len()].flags)));
    }
    None
}

pub fn run(env: &mut Env) -> Outcome {
    let ctxrc = env.ctx.clone();
    let (mut s, _cfg, _params) = match establish(env, "c10", true) {
        Ok(x) => x,
        Err(o) => return o,
    };
    s.bitmaps.clear();
    let npdu = 1 + ctxrc.borrow_mut().choose("n_pdus", 20) as usize;
    let mut want: Vec<Rect> = Vec::new();
    let mut total_rects = 0usize;
    for k in 0..npdu {
        let (updates, rects, long_form) = {
            let mut ctx = ctxrc.borrow_mut();
            let max_total = match ctx.choose("pdu_size_c", 6) { 0 | 1 => 400, 2 => 4000, 3 => 32764, 4 => *ctx.pick("pdu_size_b", &[16381usize, 16384, 16387, 16390, 8192, 24576]), _ => 1 + ctx.choose("pdu_size", 32764) as usize };
            if ctx.chance("exact_body_size", 1, 10) {
                // bodies that are exact multiples of the usual block sizes, and their neighbours
                let body = *ctx.pick("exact_body", &[16384usize, 16383, 16385, 8192, 4096, 32764 - 3, 0x4000 - 1, 0x4000 + 1, 1024]);
                let (u, r) = sized_bitmap_pdu(&mut ctx, body);
                ctx.probe("exact_body_size_pdu");
                (u, r, true)
            } else {
                let (u, r) = gen_fastpath_pdu(&mut ctx, max_total, false);
                let long_form = ctx.chance("fp_long", 1, 3);
                (u, r, long_form)
            }
        };
        total_rects += rects.len();
        {
            let mut ctx = ctxrc.borrow_mut();
            if rects.len() > 1 { ctx.probe("multi_rect_pdu"); }
            if rects.iter().any(|r| r.flags & 1 != 0 && r.flags & 0x400 == 0) { ctx.probe("compression_header_present"); }
            if rects.iter().any(|r| r.data.is_empty()) { ctx.probe("empty_bitmap_data"); }
            if updates.len() == 0 { ctx.probe("empty_pdu"); }
            ctx.key_add(rects.len() as u64);
            ctx.key_add(updates.len() as u64 / 512);
        }
        want.extend(rects);
        {
            let mut srv = s.world.server.borrow_mut();
            srv.send_fastpath(&format!("fast-path#{}", k), &updates, long_form);
            srv.flush();
        }
        match s.read_once() {
            Err(o) => return o,
            Ok(Err(kind)) => return viol("c10/read-error", &kind, format!("RdpClient::read failed on a well-formed fast-path PDU #{} ({} update bytes): {}", k, updates.len(), kind)),
            Ok(Ok(())) => {}
        }
        // exactly-once is checked incrementally so that the report names the PDU
        if let Some((site, detail)) = compare_rects(&s.bitmaps, &want) {
            return viol("c10/delivery", &site, format!("after PDU #{}: {}", k, detail));
        }
    }
    let mut ctx = ctxrc.borrow_mut();
    ctx.nontrivial = total_rects > 0;
    Outcome::Pass
}
