//! C14 — outbound frames are exact and completely delivered, or refused.
//! Real code: rdp::core::tpkt::Client::write, rdp::model::link::Link::write over Stream::Raw.
//! Simulated: the sink (ClientEnd write side) with short writes, Ok(0), EINTR, write errors.
//! c14/tls_write: the same through Stream::Ssl (real OpenSSL on both ends): the faults hit the cipher-text writes, the
//! reference server decrypts and the oracle looks at the plaintext stream the peer ends up with.

use crate::harness::{err_kind, guard, panic_outcome, viol, Outcome};
use crate::scen::Env;
use crate::tape::Ctx;
use crate::wire::{ClientEnd, NetCfg, Wire, WriteMode};
use rdp::core::tpkt;
use rdp::model::link::{Link, Stream};
use std::cell::RefCell;
use std::io::ErrorKind;
use std::rc::Rc;

fn gen_payload_len(ctx: &mut Ctx, stratum: Option<usize>) -> usize {
    if let Some(s) = stratum {
        return s % 70001;
    }
    match ctx.choose("plen_class", 8) {
        0 | 1 => ctx.choose("plen_small", 64) as usize,
        2 => {
            const B: [usize; 34] = [0, 1, 2, 0x7b, 0x7c, 0x7f, 0x80, 0xff, 0x100, 1460, 4096, 16379, 16380, 16381, 16382, 16383, 16384, 16385, 32763, 32764, 32768, 49148, 49152, 8188, 8192, 65529, 65530, 65531, 65532, 65533, 65535, 65536, 69999, 70000];
            B[ctx.choose("plen_b", B.len() as u64) as usize]
        }
        3 => 65500 + ctx.choose("plen_edge", 100) as usize,
        4 => ctx.choose("plen_mid", 3000) as usize,
        5 => ctx.choose("plen_any", 70001) as usize,
        _ => ctx.choose("plen_small2", 600) as usize,
    }
}

fn payload(ctx: &mut Ctx, n: usize) -> Vec<u8> {
    let a = ctx.choose("fill", 256) as u8;
    (0..n).map(|i| a.wrapping_add((i as u8).wrapping_mul(13)) ^ ((i >> 8) as u8)).collect()
}

struct Plan {
    cfg: NetCfg,
    harmful: bool,
    fault_name: &'static str,
}

fn gen_plan(ctx: &mut Ctx, total_hint: usize) -> Plan {
    let mut cfg = NetCfg::benign();
    let big = total_hint > 4096;
    let m = ctx.choose("write_mode", 6);
    cfg.write_mode = match m {
        0 => WriteMode::Whole,
        1 => {
            if big { WriteMode::Cap(512 + ctx.choose("cap", 4096) as usize) } else { WriteMode::Cap(1) }
        }
        2 => {
            if big { WriteMode::Cap(1024 + ctx.choose("cap", 30000) as usize) } else { WriteMode::Cap(1 + ctx.choose("cap", 16) as usize) }
        }
        3 => {
            if big { WriteMode::Cap(300 + ctx.choose("cap", 2000) as usize) } else { WriteMode::Random }
        }
        4 => WriteMode::Cap(1 + ctx.choose("cap_n", (total_hint as u64).max(1)) as usize),
        _ => WriteMode::Bursty,
    };
    ctx.key_add(m);
    // fault family: 0 none (benign short writes only), 1 EINTR, 2 zero-then-progress, 3 error at byte p
    let fam = ctx.choose("fault_family", 4);
    ctx.key_add(fam);
    match fam {
        0 => Plan { cfg, harmful: false, fault_name: "none" },
        1 => {
            cfg.eintr_write = 4;
            Plan { cfg, harmful: true, fault_name: "eintr" }
        }
        2 => {
            cfg.zero_write = 4;
            Plan { cfg, harmful: true, fault_name: "zero_write" }
        }
        _ => {
            let p = match ctx.choose("err_pos_class", 3) {
                0 => ctx.choose("err_pos_hdr", 6) as usize,
                1 => ctx.choose("err_pos", (total_hint as u64 + 8).max(1)) as usize,
                _ => total_hint.saturating_sub(ctx.choose("err_pos_tail", 4) as usize),
            };
            cfg.write_fail_at = Some(p);
            cfg.write_fail_kind = *ctx.pick("err_kind", &[ErrorKind::BrokenPipe, ErrorKind::ConnectionReset, ErrorKind::Other, ErrorKind::WouldBlock, ErrorKind::ConnectionAborted, ErrorKind::TimedOut]);
            cfg.write_fail_transient = ctx.chance("err_transient", 1, 2);
            ctx.key_add(if p < 8 { p as u64 } else { 8 });
            Plan { cfg, harmful: true, fault_name: "write_error" }
        }
    }
}

enum Target {
    Tpkt,
    Link,
}

fn run_generic(env: &mut Env, target: Target) -> Outcome {
    let ctxrc = env.ctx.clone();
    let (lens, mut payloads, plan) = {
        let mut ctx = ctxrc.borrow_mut();
        let nmsg = if ctx.chance("more_messages", 1, 8) { 4 + ctx.choose("nmsg_more", 3) as usize } else { 1 + ctx.choose("nmsg", 3) as usize };
        let stratum = if env.thorough && env.case % 2 == 0 { Some((env.case / 2) as usize) } else { None };
        let mut lens = Vec::new();
        let mut payloads = Vec::new();
        for i in 0..nmsg {
            let n = gen_payload_len(&mut ctx, if i == 0 { stratum } else { None });
            // keep multi-message runs cheap
            let n = if i > 0 && n > 5000 { n % 5000 } else { n };
            lens.push(n);
            let p = payload(&mut ctx, n);
            payloads.push(p);
        }
        let total: usize = lens.iter().sum::<usize>() + 4 * nmsg;
        let plan = gen_plan(&mut ctx, total);
        ctx.step_budget = 4 * total as u64 + 2000;
        for n in &lens {
            ctx.key_add(if *n < 8 { *n as u64 } else if *n > 65520 && *n < 65540 { *n as u64 } else { 64 - (*n as u64).leading_zeros() as u64 + 8 });
        }
        (lens, payloads, plan)
    };
    let is_tpkt = matches!(target, Target::Tpkt);
    for n in &lens {
        env.cover.push((if is_tpkt { "tpkt_payload_len" } else { "link_payload_len" }, *n as u64));
    }
    let wire = Rc::new(RefCell::new(Wire::new()));
    let cfgrc = Rc::new(RefCell::new(plan.cfg.clone()));
    let end = ClientEnd::new(wire.clone(), ctxrc.clone(), cfgrc.clone(), None);
    let link = Link::new(Stream::Raw(end));
    let mut tp = None;
    let mut lk = None;
    if is_tpkt { tp = Some(tpkt::Client::new(link)); } else { lk = Some(link); }

    let mut reference: Vec<u8> = Vec::new();
    let mut unfinished: Option<(Vec<u8>, usize)> = None;
    let mut error_reported = false;
    // a caller whose write failed may well try the same message again
    let retry_same = ctxrc.borrow_mut().chance("same_message_again_after_an_error", 1, 2);
    for i in 0..payloads.len() {
        let p = &payloads[i].clone();
        let before = wire.borrow().c2s_all.len();
        let fired_before: u64 = ctxrc.borrow().faults.iter().filter(|(k, _)| **k != "short_write").map(|(_, v)| *v).sum();
        let pc = p.clone();
        let res = guard(|| {
            if let Some(t) = tp.as_mut() { t.write(pc) } else { lk.as_mut().unwrap().write(&pc) }
        });
        let res = match res {
            Ok(r) => r,
            Err(pr) => return panic_outcome(&pr),
        };
        let fired_after: u64 = ctxrc.borrow().faults.iter().filter(|(k, _)| **k != "short_write").map(|(_, v)| *v).sum();
        let harmful_fired = fired_after > fired_before;
        let too_big = is_tpkt && p.len() + 4 > 65535;
        let frame: Vec<u8> = if is_tpkt {
            let t = p.len() + 4;
            let mut f = vec![3u8, 0, (t >> 8) as u8, (t & 0xff) as u8];
            f.extend_from_slice(p);
            f
        } else {
            p.clone()
        };
        let w = wire.borrow();
        let emitted = &w.c2s_all[before..];
        let lenclass = if too_big { "oversize" } else if p.is_empty() { "empty" } else { "fits" };
        ctxrc.borrow_mut().ev("drv", format!("write#{} len={} -> {} emitted={}", i, p.len(), match &res { Ok(_) => "Ok".to_string(), Err(e) => err_kind(e) }, emitted.len()));
        if ctxrc.borrow().budget_exceeded {
            return viol("c14/spin", plan.fault_name, format!("step budget exhausted writing {} bytes", p.len()));
        }
        if too_big {
            ctxrc.borrow_mut().probe("oversize_message");
            match res {
                Ok(_) => return viol("c14/oversize-accepted", lenclass, format!("payload of {} bytes does not fit a 16-bit TPKT length but write returned Ok; header on the wire: {:02x?}", p.len(), &emitted[..emitted.len().min(4)])),
                Err(_) => {
                    if !emitted.is_empty() {
                        return viol("c14/oversize-bytes-on-wire", lenclass, format!("payload of {} bytes refused, yet {} bytes were emitted", p.len(), emitted.len()));
                    }
                    ctxrc.borrow_mut().nontrivial = true;
                    return Outcome::Pass;
                }
            }
        }
        // a frame cut by an earlier reported error may be taken up again by a write of the same bytes
        let resumes: Option<usize> = match &unfinished {
            Some((f, k)) if *f == frame && emitted.len() <= f.len() - *k && emitted == &f[*k..*k + emitted.len()] && !(emitted.is_empty() && *k < f.len() && res.is_ok()) => Some(*k),
            _ => None,
        };
        match res {
            Ok(_) => {
                if emitted == &frame[..] {
                    // exactly one frame (also right behind a frame an earlier error cut short: the statement asks no more)
                    unfinished = None;
                } else if resumes.map(|k| k + emitted.len() == frame.len()).unwrap_or(false) {
                    ctxrc.borrow_mut().probe("cut_frame_completed_by_a_retry");
                    unfinished = None;
                } else if emitted.len() < frame.len() && emitted == &frame[..emitted.len()] {
                    return viol("c14/silent-loss", &format!("{} {}", if is_tpkt { "tpkt" } else { "link" }, if harmful_fired { plan.fault_name } else { "short_write" }),
                        format!("write of {} payload bytes returned Ok but only {} of {} frame bytes reached the stream", p.len(), emitted.len(), frame.len()));
                } else {
                    return viol("c14/misframed", if is_tpkt { "tpkt" } else { "link" }, format!("emitted {} bytes differ from the reference framing ({} bytes); header {:02x?}", emitted.len(), frame.len(), &emitted[..emitted.len().min(4)]));
                }
                reference.extend_from_slice(&frame);
            }
            Err(e) => {
                if !harmful_fired && unfinished.is_none() && !error_reported {
                    return viol("c14/spurious-error", &format!("{} {}", if is_tpkt { "tpkt" } else { "link" }, err_kind(&e)), format!("write of {} bytes failed with {} although the stream only shortened writes", p.len(), err_kind(&e)));
                }
                error_reported = true;
                if !harmful_fired {
                    // refused because of an earlier reported error (a frame left unfinished, or a link given up): nothing may
                    // have been emitted
                    if !emitted.is_empty() && resumes.is_none() {
                        return viol("c14/misframed-on-error", if is_tpkt { "tpkt" } else { "link" }, format!("write refused with {} after an earlier failure, yet {} bytes were emitted", err_kind(&e), emitted.len()));
                    }
                    ctxrc.borrow_mut().probe("refused_after_a_cut_frame");
                    if let (Some(k), Some((f, _))) = (resumes, unfinished.clone()) { unfinished = Some((f, k + emitted.len())); }
                    continue;
                }
                if let Some(k) = resumes {
                    if let Some((f, _)) = unfinished.clone() { unfinished = Some((f, k + emitted.len())); }
                } else {
                    if emitted.len() > frame.len() || emitted != &frame[..emitted.len()] {
                        return viol("c14/misframed-on-error", if is_tpkt { "tpkt" } else { "link" }, format!("after {} the stream holds {} bytes that are not a prefix of the reference framing", err_kind(&e), emitted.len()));
                    }
                    unfinished = if !emitted.is_empty() && emitted.len() < frame.len() { Some((frame.clone(), emitted.len())) } else { None };
                }
                ctxrc.borrow_mut().probe("error_reported");
                ctxrc.borrow_mut().nontrivial = true;
                // the fault is over; what the caller writes next must again be exactly one frame, or be refused
                {
                    let mut c = cfgrc.borrow_mut();
                    c.write_fail_at = None;
                    c.eintr_write = 0;
                    c.zero_write = 0;
                }
                if i + 1 < payloads.len() {
                    ctxrc.borrow_mut().probe("write_after_reported_error");
                    if retry_same {
                        payloads[i + 1] = p.clone();
                        ctxrc.borrow_mut().probe("same_message_again_after_an_error");
                    }
                }
                continue;
            }
        }
    }
    let mut ctx = ctxrc.borrow_mut();
    ctx.nontrivial = true;
    if plan.harmful {
        ctx.probe("fault_family_survived");
    }
    Outcome::Pass
}

pub fn run_tpkt(env: &mut Env) -> Outcome {
    run_generic(env, Target::Tpkt)
}

pub fn run_link(env: &mut Env) -> Outcome {
    run_generic(env, Target::Link)
}

// ------------------------------------------------------------------------------------------------ over TLS

/// x224::Client::write over a TLS link whose underlying stream shortens writes, is interrupted, or fails once
pub fn run_tls(env: &mut Env) -> Outcome {
    use crate::refsrv::build::ServerParams;
    use crate::refsrv::world::World;
    use rdp::core::x224;
    let ctxrc = env.ctx.clone();
    let (params, nmsg) = {
        let mut ctx = ctxrc.borrow_mut();
        let mut p = ServerParams::default_for(1);
        p.cert = *ctx.pick("cert", &[0usize, 1, 4]);
        p.tls12 = ctx.chance("tls12_server", 1, 2);
        ctx.step_budget = 400_000;
        (p, 2 + ctx.choose("nmsg", 4) as usize)
    };
    let world = World::new(ctxrc.clone(), params, NetCfg::benign());
    let end = world.client_end();
    let t = tpkt::Client::new(Link::new(Stream::Raw(end)));
    let r = guard(move || x224::Client::connect(t, 1, false, None, false, false));
    let mut x = match r {
        Err(p) => return panic_outcome(&p),
        Ok(Err(e)) => return Outcome::HarnessError(format!("c14/tls: TLS could not be established on a benign transport: {}", err_kind(&e))),
        Ok(Ok(x)) => x,
    };
    // from here on the server only decrypts
    world.server.borrow_mut().go_silent = true;
    world.pump();
    let base_plain = world.server.borrow().app_in.len();
    // messages and the fault plan (positions count cipher-text octets from now on)
    let (mut payloads, plan) = {
        let mut ctx = ctxrc.borrow_mut();
        let mut ps = Vec::new();
        for _ in 0..nmsg {
            let n = match ctx.choose("plen_class", 6) { 0 => ctx.choose("plen_small", 64) as usize, 1 => 100, 2 => 100 + ctx.choose("plen_mid", 400) as usize, 3 => *ctx.pick("plen_b", &[0usize, 1, 16372, 16373, 16374, 16384, 20000, 40000]), 4 => ctx.choose("plen_any", 3000) as usize, _ => 300 };
            let p = payload(&mut ctx, n);
            ps.push(p);
        }
        let total: usize = ps.iter().map(|p| p.len() + 7 + 40).sum();
        let mut plan = gen_plan(&mut ctx, total);
        // only one-off errors are interesting here: with a lasting one every later write fails anyway
        if plan.cfg.write_fail_at.is_some() { plan.cfg.write_fail_transient = true; }
        (ps, plan)
    };
    let c2s_base = world.wire.borrow().c2s_all.len();
    {
        let mut c = world.cfg.borrow_mut();
        let mut n = plan.cfg.clone();
        if let Some(p) = n.write_fail_at { n.write_fail_at = Some(c2s_base + p); }
        // the read side stays benign
        n.read_mode = c.read_mode.clone();
        *c = n;
    }
    let mut results: Vec<bool> = Vec::new();
    let mut frames: Vec<Vec<u8>> = Vec::new();
    let mut errs: Vec<String> = Vec::new();
    let retry_same = ctxrc.borrow_mut().chance("same_message_again_after_an_error", 1, 2);
    for i in 0..payloads.len() {
        let p = &payloads[i].clone();
        let fired_before: u64 = ctxrc.borrow().faults.iter().filter(|(k, _)| **k != "short_write" && **k != "context_switch").map(|(_, v)| *v).sum();
        let pc = p.clone();
        let res = match guard(|| x.write(pc)) { Ok(r) => r, Err(pr) => return panic_outcome(&pr) };
        let fired_after: u64 = ctxrc.borrow().faults.iter().filter(|(k, _)| **k != "short_write" && **k != "context_switch").map(|(_, v)| *v).sum();
        if ctxrc.borrow().budget_exceeded {
            return viol("c14/spin", &format!("tls {}", plan.fault_name), format!("step budget exhausted writing {} bytes over TLS", p.len()));
        }
        let t = p.len() + 7;
        let mut f = vec![3u8, 0, (t >> 8) as u8, (t & 0xff) as u8, 2, 0xf0, 0x80];
        f.extend_from_slice(p);
        frames.push(f);
        ctxrc.borrow_mut().ev("drv", format!("tls write#{} len={} -> {}", i, p.len(), match &res { Ok(_) => "Ok".to_string(), Err(e) => err_kind(e) }));
        if let Err(e) = &res {
            if fired_after == fired_before && results.iter().all(|r| *r) {
                return viol("c14/spurious-error", &format!("tls {}", err_kind(e)), format!("write of {} bytes over TLS failed with {} although the stream only shortened writes", p.len(), err_kind(e)));
            }
            errs.push(err_kind(e));
            ctxrc.borrow_mut().probe("error_reported");
            // the fault is over
            let mut c = world.cfg.borrow_mut();
            c.write_fail_at = None;
            c.eintr_write = 0;
            c.zero_write = 0;
            if retry_same && i + 1 < payloads.len() {
                payloads[i + 1] = p.clone();
                ctxrc.borrow_mut().probe("same_message_again_after_an_error");
            }
        }
        results.push(res.is_ok());
    }
    world.pump();
    world.pump();
    let srv = world.server.borrow();
    let d: &[u8] = &srv.app_in[base_plain..];
    // the plaintext the peer holds must be explained by the calls: every acknowledged frame whole and in order; of a
    // refused one nothing, all of it (a later retry of the same bytes may have completed it) or a part - and once a
    // frame is left in part, nothing more may be acknowledged or arrive
    fn explain(d: &[u8], frames: &[Vec<u8>], results: &[bool], i: usize, pos: usize, broken: bool) -> Option<bool> {
        if i == frames.len() {
            return if pos == d.len() { Some(broken) } else { None };
        }
        let f = &frames[i];
        let rest = &d[pos..];
        if results[i] {
            if broken || rest.len() < f.len() || &rest[..f.len()] != &f[..] { return None; }
            return explain(d, frames, results, i + 1, pos + f.len(), false);
        }
        if broken {
            return explain(d, frames, results, i + 1, pos, true);
        }
        if rest.len() >= f.len() && &rest[..f.len()] == &f[..] {
            if let Some(b) = explain(d, frames, results, i + 1, pos + f.len(), false) { return Some(b); }
        }
        if let Some(b) = explain(d, frames, results, i + 1, pos, false) { return Some(b); }
        // a part of the frame, which then has to be the end of what the peer holds
        if !rest.is_empty() && rest.len() < f.len() && rest == &f[..rest.len()] {
            return explain(d, frames, results, i + 1, d.len(), true);
        }
        None
    }
    let broken = match explain(d, &frames, &results, 0, 0, false) {
        Some(b) => b,
        None => {
            // name the first call whose frame the peer cannot find
            let mut pos = 0usize;
            let mut class = "c14/misframed-on-error";
            let mut detail = format!("the peer decrypted {} bytes which no assignment of the {} calls (results {:?}) explains", d.len(), frames.len(), results);
            for (i, f) in frames.iter().enumerate() {
                let rest = &d[pos.min(d.len())..];
                if results[i] {
                    if rest.len() >= f.len() && &rest[..f.len()] == &f[..] { pos += f.len(); continue; }
                    class = if rest.len() < f.len() && rest == &f[..rest.len()] { "c14/silent-loss" } else if results[..i].iter().any(|r| !*r) { "c14/acknowledged-but-lost" } else { "c14/misframed" };
                    detail = format!("write #{} of {} frame bytes returned Ok{}; the peer decrypted {} bytes at that place, not the frame", i, f.len(), if results[..i].iter().any(|r| !*r) { " after an earlier write had failed" } else { "" }, rest.len());
                    break;
                } else if rest.len() >= f.len() && &rest[..f.len()] == &f[..] {
                    pos += f.len();
                }
            }
            return viol(class, &format!("tls {}", plan.fault_name), detail);
        }
    };
    let mut ctx = ctxrc.borrow_mut();
    ctx.key_add(results.iter().filter(|r| !**r).count() as u64);
    ctx.key_add(broken as u64);
    if broken { ctx.probe("frame_left_incomplete_by_a_fault"); }
    ctx.nontrivial = true;
    if plan.harmful { ctx.probe("fault_family_survived"); }
    Outcome::Pass
}

// ------------------------------------------------------------------------------------------------ a whole session

/// RdpClient::write / try_write on an active session over TLS, one fault under the TLS layer: every call that returns Ok
/// must have put its input PDU in front of the server (the lenient try_write may drop what the state of the *session*
/// forbids, not what the transport lost)
pub fn run_session(env: &mut Env) -> Outcome {
    use crate::refsrv::strict::{ClientMsg, DataPdu, SharePdu};
    use rdp::core::event::{KeyboardEvent, PointerButton, PointerEvent, RdpEvent};
    let ctxrc = env.ctx.clone();
    let (mut s, _cfg, _params) = match crate::scen::session::establish(env, "c14", true) {
        Ok(x) => x,
        Err(o) => return o,
    };
    s.world.pump();
    let base_hist = s.world.server.borrow().history.len();
    let n = 3 + ctxrc.borrow_mut().choose("n_events", 6) as usize;
    let fault_at_call = ctxrc.borrow_mut().choose("fault_at_call", n as u64) as usize;
    let fault_kind = ctxrc.borrow_mut().choose("fault_kind", 5);
    let mut oks = 0usize;
    let mut errs = 0usize;
    let mut log: Vec<String> = Vec::new();
    let mut last_failed: Option<usize> = None;
    for i in 0..n {
        if i == fault_at_call {
            let at = s.world.wire.borrow().c2s_all.len() + ctxrc.borrow_mut().choose("fault_offset", 40) as usize;
            let mut c = s.world.cfg.borrow_mut();
            match fault_kind {
                0 => { c.write_fail_at = Some(at); c.write_fail_transient = true; c.write_fail_kind = std::io::ErrorKind::Other; }
                1 => { c.write_fail_at = Some(at); c.write_fail_transient = true; c.write_fail_kind = std::io::ErrorKind::WouldBlock; }
                // the kinds a closed or half-closed socket reports: whatever the link makes of them, `Ok` must mean "sent"
                3 => { c.write_fail_at = Some(at); c.write_fail_transient = true; c.write_fail_kind = std::io::ErrorKind::BrokenPipe; }
                4 => { c.write_fail_at = Some(at); c.write_fail_transient = true; c.write_fail_kind = std::io::ErrorKind::NotConnected; }
                _ => { c.zero_write = 16; }
            }
        }
        // after a failure: the same event again (a retry) in one case out of three, otherwise another one
        let retry = last_failed.is_some() && ctxrc.borrow_mut().chance("retry_same_event", 1, 3);
        let k = if retry { last_failed.unwrap() } else { i };
        let ev = if k % 2 == 0 { RdpEvent::Pointer(PointerEvent { x: 10 + k as u16, y: 20, button: PointerButton::None, down: false }) } else { RdpEvent::Key(KeyboardEvent { code: 0x10 + k as u16, down: true }) };
        let lenient = ctxrc.borrow_mut().chance("try_write", 2, 3);
        let client = s.client.as_mut().unwrap();
        let res = match guard(|| if lenient { client.try_write(ev) } else { client.write(ev) }) { Ok(r) => r, Err(p) => return panic_outcome(&p) };
        { let mut c = s.world.cfg.borrow_mut(); c.zero_write = 0; }
        log.push(format!("{}#{}->{}", if lenient { "try_write" } else { "write" }, k, match &res { Ok(_) => "Ok".to_string(), Err(e) => err_kind(e) }));
        match res {
            Ok(_) => { oks += 1; last_failed = None; }
            Err(_) => { errs += 1; if last_failed.is_none() { last_failed = Some(k); } }
        }
    }
    { let mut c = s.world.cfg.borrow_mut(); c.write_fail_at = None; c.zero_write = 0; }
    s.world.pump();
    s.world.pump();
    let received = s.world.server.borrow().history[base_hist..].iter().filter(|(_, _, m)| matches!(m, ClientMsg::Share { pdu: SharePdu::Data { pdu: DataPdu::Input { .. }, .. }, .. })).count();
    ctxrc.borrow_mut().ev("drv", format!("calls [{}]; {} Ok, {} Err, server decoded {} input PDUs", log.join(", "), oks, errs, received));
    if received < oks {
        return viol("c14/acknowledged-but-lost", "session write/try_write", format!("{} calls returned Ok but the server decoded only {} input PDUs after a fault under the TLS layer (calls: {})", oks, received, log.join(", ")));
    }
    if received > oks + if errs > 0 { 1 } else { 0 } {
        return viol("c14/misframed", "session write/try_write", format!("the server decoded {} input PDUs for {} acknowledged calls (calls: {})", received, oks, log.join(", ")));
    }
    let mut ctx = ctxrc.borrow_mut();
    ctx.key_add(fault_kind);
    ctx.key_add(errs as u64);
    if errs > 0 { ctx.probe("error_reported"); }
    ctx.nontrivial = true;
    Outcome::Pass
}
