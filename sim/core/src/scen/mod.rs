//! Scenarios, one per claimed property.

use crate::harness::{Outcome, SharedCtx};

pub mod session;
pub mod c01;
pub mod c02;
pub mod c03;
pub mod c04;
pub mod hostile;
pub mod nlmp;
pub mod c10;
pub mod c11;
pub mod c12;
pub mod c13;
pub mod c14;

pub struct Env {
    pub ctx: SharedCtx,
    pub case: u64,
    pub thorough: bool,
    /// coverage points (name, value) collected by the worker into per-name sets
    pub cover: Vec<(&'static str, u64)>,
}

/// CredSSP / NTLM reference server available?
pub fn nla_available() -> bool {
    true
}

/// plug the honest CredSSP/NTLM server into the world; returns its result record
pub fn install_nla(world: &crate::refsrv::world::World, cfg: &session::ClientCfg) -> std::rc::Rc<std::cell::RefCell<crate::refsrv::nla::NlaResults>> {
    install_nla_custom(world, cfg, |_| {})
}

/// same, with a last word on the server's configuration
pub fn install_nla_custom(world: &crate::refsrv::world::World, cfg: &session::ClientCfg, tweak: impl FnOnce(&mut crate::refsrv::nla::Nla)) -> std::rc::Rc<std::cell::RefCell<crate::refsrv::nla::NlaResults>> {
    let mut nla = {
        let mut ctx = world.ctx.borrow_mut();
        session::seed_client_randomness(&mut ctx);
        session::make_nla(&mut ctx, cfg)
    };
    tweak(&mut nla);
    let res = nla.results.clone();
    world.server.borrow_mut().nla = Some(Box::new(nla));
    res
}

pub type ScenarioFn = fn(&mut Env) -> Outcome;

pub struct ScenarioDef {
    pub property: &'static str,
    pub name: &'static str,
    pub run: ScenarioFn,
    /// default number of cases in the quick tier
    pub quick_cases: u64,
    /// cases per thorough round (rounds are repeated until the time budget is used)
    pub thorough_cases: u64,
    pub needs_tls: bool,
}

pub fn registry() -> Vec<ScenarioDef> {
    vec![
        ScenarioDef { property: "C01", name: "c01/final-reply", run: c01::run, quick_cases: 6_000, thorough_cases: 500_000, needs_tls: true },
        ScenarioDef { property: "C02", name: "c02/negotiation", run: c02::run, quick_cases: 8_000, thorough_cases: 3_000_000, needs_tls: true },
        ScenarioDef { property: "C03", name: "c03/session", run: c03::run, quick_cases: 4_000, thorough_cases: 600_000, needs_tls: true },
        ScenarioDef { property: "C04", name: "c04/session", run: c04::run, quick_cases: 4_000, thorough_cases: 600_000, needs_tls: true },
        ScenarioDef { property: "C05", name: "c05/setup", run: hostile::run_c05, quick_cases: 16_000, thorough_cases: 2_000_000, needs_tls: true },
        ScenarioDef { property: "C05", name: "c05/parsers", run: hostile::run_c05_direct, quick_cases: 100_000, thorough_cases: 3_000_000, needs_tls: false },
        ScenarioDef { property: "C06", name: "c06/session", run: hostile::run_c06, quick_cases: 12_000, thorough_cases: 2_000_000, needs_tls: true },
        ScenarioDef { property: "C07", name: "c07/nla", run: hostile::run_c07, quick_cases: 12_000, thorough_cases: 2_000_000, needs_tls: true },
        ScenarioDef { property: "C07", name: "c07/parsers", run: hostile::run_c07_direct, quick_cases: 100_000, thorough_cases: 3_000_000, needs_tls: false },
        ScenarioDef { property: "C10", name: "c10/fastpath", run: c10::run, quick_cases: 3_000, thorough_cases: 400_000, needs_tls: true },
        ScenarioDef { property: "C11", name: "c11/input", run: c11::run, quick_cases: 3_000, thorough_cases: 400_000, needs_tls: true },
        ScenarioDef { property: "C12", name: "c12/automaton", run: c12::run, quick_cases: 2_500, thorough_cases: 300_000, needs_tls: true },
        ScenarioDef { property: "C12", name: "c12/confirm_active_limit", run: c12::run_limit, quick_cases: 200, thorough_cases: 10_000, needs_tls: true },
        ScenarioDef { property: "C15", name: "c15/authenticate", run: nlmp::run_c15, quick_cases: 100_000, thorough_cases: 15_000_000, needs_tls: false },
        ScenarioDef { property: "C16", name: "c16/sealing", run: nlmp::run_c16, quick_cases: 60_000, thorough_cases: 10_000_000, needs_tls: false },
        ScenarioDef { property: "C17", name: "c17/secrets", run: nlmp::run_c17, quick_cases: 4_000, thorough_cases: 500_000, needs_tls: true },
        ScenarioDef { property: "C13", name: "c13/deframe", run: c13::run, quick_cases: 200_000, thorough_cases: 12_000_000, needs_tls: false },
        ScenarioDef { property: "C14", name: "c14/tpkt_write", run: c14::run_tpkt, quick_cases: 60_000, thorough_cases: 8_000_000, needs_tls: false },
        ScenarioDef { property: "C14", name: "c14/link_write", run: c14::run_link, quick_cases: 40_000, thorough_cases: 6_000_000, needs_tls: false },
        ScenarioDef { property: "C14", name: "c14/tls_write", run: c14::run_tls, quick_cases: 6_000, thorough_cases: 400_000, needs_tls: true },
        ScenarioDef { property: "C14", name: "c14/session_write", run: c14::run_session, quick_cases: 3_000, thorough_cases: 200_000, needs_tls: true },
    ]
}
