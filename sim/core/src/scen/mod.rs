//! Scenarios, one per claimed property.

use crate::harness::{Outcome, SharedCtx};

pub mod c13;
pub mod c14;

pub struct Env {
    pub ctx: SharedCtx,
    pub case: u64,
    pub thorough: bool,
    /// coverage points (name, value) collected by the worker into per-name sets
    pub cover: Vec<(&'static str, u64)>,
}

pub type ScenarioFn = fn(&mut Env) -> Outcome;

pub struct ScenarioDef {
    pub property: &'static str,
    pub name: &'static str,
    pub run: ScenarioFn,
    /// default number of cases in the quick tier
    pub quick_cases: u64,
    /// cases per thorough round (rounds are repeated until the time budget is used)
    pub thorough_cases: u64,
    pub needs_tls: bool,
}

pub fn registry() -> Vec<ScenarioDef> {
    vec![
        ScenarioDef { property: "C13", name: "c13/deframe", run: c13::run, quick_cases: 200_000, thorough_cases: 4_000_000, needs_tls: false },
        ScenarioDef { property: "C14", name: "c14/tpkt_write", run: c14::run_tpkt, quick_cases: 60_000, thorough_cases: 2_000_000, needs_tls: false },
        ScenarioDef { property: "C14", name: "c14/link_write", run: c14::run_link, quick_cases: 40_000, thorough_cases: 1_000_000, needs_tls: false },
    ]
}
