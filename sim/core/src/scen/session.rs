//! Shared pieces of the full-connection scenarios: connector configurations, running a
//! connect + activation against the reference server, and the sequence oracle of C03.

use crate::harness::{err_kind, guard, panic_outcome, viol, Outcome};
use crate::refsrv::build::ServerParams;
use crate::refsrv::server::{Phase, Server};
use crate::refsrv::strict::{ClientMsg, DataPdu, SharePdu};
use crate::refsrv::world::World;
use crate::tape::Ctx;
use crate::wire::{NetCfg, ReadMode, WriteMode};
use rdp::core::client::{Connector, RdpClient};
use rdp::core::event::{BitmapEvent, RdpEvent};
use rdp::core::gcc::KeyboardLayout;
use crate::wire::ClientEnd;

pub const LAYOUTS: [(KeyboardLayout, u32); 19] = [
    (KeyboardLayout::US, 0x409), (KeyboardLayout::French, 0x40c), (KeyboardLayout::Arabic, 0x401), (KeyboardLayout::Bulgarian, 0x402),
    (KeyboardLayout::ChineseUsKeyboard, 0x404), (KeyboardLayout::Czech, 0x405), (KeyboardLayout::Danish, 0x406), (KeyboardLayout::German, 0x407),
    (KeyboardLayout::Greek, 0x408), (KeyboardLayout::Spanish, 0x40a), (KeyboardLayout::Finnish, 0x40b), (KeyboardLayout::Hebrew, 0x40d),
    (KeyboardLayout::Hungarian, 0x40e), (KeyboardLayout::Icelandic, 0x40f), (KeyboardLayout::Italian, 0x410), (KeyboardLayout::Japanese, 0x411),
    (KeyboardLayout::Korean, 0x412), (KeyboardLayout::Dutch, 0x413), (KeyboardLayout::Norwegian, 0x414),
];

#[derive(Clone, Debug)]
pub struct ClientCfg {
    pub width: u16,
    pub height: u16,
    pub layout: usize,
    pub name: String,
    pub domain: String,
    pub user: String,
    pub password: String,
    pub use_hash: bool,
    pub nla: bool,
    pub restricted: bool,
    pub blank: bool,
    pub auto_logon: bool,
    pub check_cert: bool,
    /// order in which the builder methods of Connector are called (an application may call them in any order,
    /// and may call the setters of options it leaves off)
    pub builder_order: u8,
}

impl ClientCfg {
    pub fn plain() -> ClientCfg {
        ClientCfg {
            width: 800, height: 600, layout: 0, name: "rdp-rs".into(), domain: "dom".into(), user: "usr".into(), password: "pw".into(),
            use_hash: false, nla: false, restricted: false, blank: false, auto_logon: false, check_cert: false, builder_order: 0,
        }
    }

    pub fn connector(&self) -> Connector {
        let mut c = match self.builder_order % 3 {
            0 => Connector::new()
                .screen(self.width, self.height)
                .credentials(self.domain.clone(), self.user.clone(), self.password.clone())
                .set_restricted_admin_mode(self.restricted)
                .auto_logon(self.auto_logon)
                .blank_creds(self.blank)
                .layout(LAYOUTS[self.layout].0)
                .check_certificate(self.check_cert)
                .name(self.name.clone())
                .use_nla(self.nla),
            1 => Connector::new()
                .use_nla(self.nla)
                .blank_creds(self.blank)
                .auto_logon(self.auto_logon)
                .check_certificate(self.check_cert)
                .set_restricted_admin_mode(self.restricted)
                .name(self.name.clone())
                .layout(LAYOUTS[self.layout].0)
                .credentials(self.domain.clone(), self.user.clone(), self.password.clone())
                .screen(self.width, self.height),
            _ => Connector::new()
                .credentials(self.domain.clone(), self.user.clone(), self.password.clone())
                .check_certificate(self.check_cert)
                .blank_creds(self.blank)
                .use_nla(self.nla)
                .set_restricted_admin_mode(self.restricted)
                .screen(self.width, self.height)
                .auto_logon(self.auto_logon)
                .layout(LAYOUTS[self.layout].0)
                .name(self.name.clone()),
        };
        if self.use_hash {
            c = c.set_password_hash(crate::scen::session::nt_hash_of(&self.password));
        }
        c
    }
}

/// NT hash through the reference implementation (independent of the client's md4)
pub fn nt_hash_of(password: &str) -> Vec<u8> {
    crate::refsrv::ntlm::nt_hash(password).to_vec()
}

const SAMPLE_CHARS: [&[char]; 6] = [
    &['a', 'Z', '0', '-', '_', ' ', '.', '$', '@', '\\', '/', '~'],
    &['é', 'ü', 'Ö', 'ß', 'ñ', 'ø', 'Å', '£', '¿', 'µ'],
    &['Ж', 'я', 'Ω', 'λ', 'ש', 'ع', 'क', 'ก'],
    &['中', '文', '日', '本', '語', '한', '글', '€', '☃'],
    &['😀', '𝄞', '🜂', '𐍈', '🏳', '👍'],
    &['\u{1}', '\u{7f}', '\u{80}', '\u{ff}', '\u{fffd}', '\u{ffff}', '\u{d7ff}', '\u{e000}', '\t', '\n', '"', '\''],
];

/// a string of `n` characters; class 0 = ASCII ... 5 = awkward code points; 6 = mixed
pub fn gen_string(ctx: &mut Ctx, label: &'static str, max_chars: usize, allow_unicode: bool) -> String {
    let len_class = ctx.choose(label, 8);
    let n = match len_class {
        0 => 3 + ctx.choose(label, 5) as usize,
        1 => 0,
        2 => 1,
        3 => 15,
        4 => 16,
        5 => 17,
        6 => max_chars,
        _ => ctx.choose(label, max_chars as u64 + 1) as usize,
    }.min(max_chars);
    let class = if allow_unicode { ctx.choose(label, 8) as usize } else { 0 };
    let mut s = String::new();
    for _ in 0..n {
        let c = if class >= 6 { ctx.choose(label, 6) as usize } else { class.min(5) };
        let set = SAMPLE_CHARS[if class == 7 && c > 0 { c } else if class >= 6 { c } else { c }];
        s.push(set[ctx.choose(label, set.len() as u64) as usize]);
    }
    s
}

pub fn gen_client_cfg(ctx: &mut Ctx, unicode: bool, allow_nla: bool) -> ClientCfg {
    let mut c = ClientCfg::plain();
    match ctx.choose("screen", 4) {
        0 => {}
        1 => {
            c.width = ctx.u16_boundary("width");
            c.height = ctx.u16_boundary("height");
        }
        2 => {
            c.width = *ctx.pick("width_s", &[640u16, 1024, 1280, 1920, 3840, 1, 0, 65535]);
            c.height = *ctx.pick("height_s", &[480u16, 768, 1024, 1080, 2160, 1, 0, 65535]);
        }
        _ => {
            c.width = ctx.choose("width_r", 65536) as u16;
            c.height = ctx.choose("height_r", 65536) as u16;
        }
    }
    c.layout = ctx.choose("layout", LAYOUTS.len() as u64) as usize;
    if ctx.chance("name_gen", 3, 4) {
        c.name = gen_string(ctx, "name", 40, unicode);
    }
    if ctx.chance("creds_gen", 3, 4) {
        c.domain = gen_string(ctx, "domain", 40, unicode);
        c.user = gen_string(ctx, "user", 64, unicode);
        c.password = gen_string(ctx, "password", 64, unicode);
    }
    c.auto_logon = ctx.chance("auto_logon", 1, 2);
    c.restricted = ctx.chance("restricted", 1, 3);
    c.blank = ctx.chance("blank", 1, 3);
    c.use_hash = ctx.chance("use_hash", 1, 4);
    c.nla = allow_nla && ctx.chance("nla", 1, 2);
    c.check_cert = ctx.chance("check_cert", 1, 3);
    c.builder_order = ctx.choose("builder_order", 3) as u8;
    c
}

/// benign transport schedules only (fragmentation, segment boundaries, eager server, short writes >= 1 byte)
pub fn gen_benign_net(ctx: &mut Ctx) -> NetCfg {
    let mut n = NetCfg::benign();
    n.read_mode = match ctx.choose("net_read", 5) {
        0 => ReadMode::Whole,
        1 => ReadMode::Random,
        2 => ReadMode::Cap(1 + ctx.choose("net_cap", 7) as usize),
        3 => ReadMode::Cap(16 + ctx.choose("net_cap2", 1500) as usize),
        _ => ReadMode::Cap(1),
    };
    n.respect_segments = ctx.chance("net_seg", 1, 2);
    n.write_mode = match ctx.choose("net_write", 4) {
        0 => WriteMode::Whole,
        1 => WriteMode::Random,
        2 => WriteMode::Cap(1 + ctx.choose("net_wcap", 40) as usize),
        _ => WriteMode::Cap(100 + ctx.choose("net_wcap2", 2000) as usize),
    };
    n.eager = *ctx.pick("net_eager", &[0u64, 16, 8, 2]);
    n
}

/// reference CredSSP/NTLM server for this configuration, with a conforming CHALLENGE drawn from the tape
pub fn make_nla(ctx: &mut Ctx, cfg: &ClientCfg) -> crate::refsrv::nla::Nla {
    use crate::refsrv::ntlm::{utf16le, ChallengeCfg};
    let mut challenge = [0u8; 8];
    challenge.copy_from_slice(&ctx.bytes("srv_challenge", 8));
    let time = match ctx.choose("av_time", 3) { 0 => vec![0x80, 0x3e, 0xd5, 0xde, 0xb1, 0x9d, 0x01, 0x01], 1 => vec![0; 8], _ => ctx.bytes("av_time_v", 8) };
    let names = [(2u16, "DOM"), (1, "SRV"), (4, "dom.example"), (3, "srv.dom.example"), (5, "forest.example")];
    let mut pairs: Vec<(u16, Vec<u8>)> = Vec::new();
    let mode = ctx.choose("av_mode", 4);
    match mode {
        0 => {
            for (id, n) in names.iter().take(4) { pairs.push((*id, utf16le(n))); }
            pairs.push((7, time));
        }
        1 => pairs.push((7, time)),
        _ => {
            // any subset, any order, arbitrary value lengths; the timestamp somewhere
            let n = ctx.choose("av_n", 6) as usize;
            for _ in 0..n {
                let (id, nm) = names[ctx.choose("av_id", names.len() as u64) as usize];
                let v = if ctx.chance("av_val", 1, 3) { let l = ctx.choose("av_len", 81) as usize; (0..l).map(|i| if i % 2 == 0 { 0x41u8 } else { 0 }).collect() } else { utf16le(nm) };
                pairs.push((id, v));
            }
            if mode == 3 {
                pairs.push((6, vec![0, 0, 0, 0]));
                pairs.push((9, utf16le("TERMSRV/srv")));
            }
            let at = ctx.choose("av_time_at", pairs.len() as u64 + 1) as usize;
            pairs.insert(at, (7, time));
        }
    }
    if ctx.chance("long_dns_names", 1, 8) {
        // DNS names may have 255 characters: with three of them the TSRequest no longer fits 1500 bytes
        let k = 1 + ctx.choose("long_dns_n", 3) as usize;
        for id in [3u16, 4, 5].iter().take(k) {
            let l = *ctx.pick("long_dns_len", &[255usize, 254, 200, 120]);
            let name: String = (0..l).map(|i| if i % 32 == 31 { '.' } else { (b'a' + (i % 26) as u8) as char }).collect();
            pairs.retain(|(i, _)| i != id);
            let at = ctx.choose("long_dns_at", pairs.len() as u64 + 1) as usize;
            pairs.insert(at, (*id, utf16le(&name)));
        }
        ctx.probe("tsrequest_beyond_1500_bytes_possible");
    }
    let cc = ChallengeCfg {
        server_challenge: challenge,
        target_name: if ctx.chance("tname", 1, 2) { "SRV".to_string() } else { gen_string(ctx, "tname_v", 20, true) },
        av_pairs: pairs,
        with_version: !ctx.chance("no_version", 1, 3),
        extra_flags: 0,
        target_info_first: ctx.chance("ti_first", 1, 3),
    };
    let version = 2 + ctx.choose("cssp_version", 5);
    let mut h = [0u8; 16];
    h.copy_from_slice(&nt_hash_of(&cfg.password));
    crate::refsrv::nla::Nla::new(h, version, cc)
}

/// seed the client's own randomness (hook H1) from the tape
pub fn seed_client_randomness(ctx: &mut Ctx) {
    let seed = ctx.choose("client_rnd", u64::MAX);
    let mut rng = crate::prng::Rng::new(seed);
    rdp::model::rnd::verif::install(Some(Box::new(move |n| (0..n).map(|_| rng.next_u64() as u8).collect())));
}

pub struct Session {
    pub world: World,
    pub client: Option<RdpClient<ClientEnd>>,
    pub connect_result: Result<(), String>,
    pub bitmaps: Vec<BitmapEvent>,
    pub reads_done: usize,
}

pub enum Stop {
    Outcome(Outcome),
}

impl Session {
    /// run Connector::connect against the world; panics are turned into outcomes by the caller
    pub fn connect(world: World, cfg: &ClientCfg) -> Result<Session, Outcome> {
        let mut connector = cfg.connector();
        Session::connect_with(world, cfg, &mut connector)
    }

    /// same with a connector owned by the caller (an application may use one connector for several connections)
    pub fn connect_with(world: World, cfg: &ClientCfg, connector: &mut Connector) -> Result<Session, Outcome> {
        let end = world.client_end();
        {
            let mut ctx = world.ctx.borrow_mut();
            ctx.ev("drv", format!("connect nla={} restricted={} blank={} auto={} hash={} check={} screen={}x{} layout={:#x}", cfg.nla, cfg.restricted, cfg.blank, cfg.auto_logon, cfg.use_hash, cfg.check_cert, cfg.width, cfg.height, LAYOUTS[cfg.layout].1));
        }
        let res = guard(|| connector.connect(end));
        match res {
            Err(p) => Err(panic_outcome(&p)),
            Ok(Ok(client)) => {
                world.ctx.borrow_mut().ev("drv", "connect -> Ok".to_string());
                Ok(Session { world, client: Some(client), connect_result: Ok(()), bitmaps: Vec::new(), reads_done: 0 })
            }
            Ok(Err(e)) => {
                let k = err_kind(&e);
                world.ctx.borrow_mut().ev("drv", format!("connect -> Err {}", k));
                Ok(Session { world, client: None, connect_result: Err(k), bitmaps: Vec::new(), reads_done: 0 })
            }
        }
    }

    /// one RdpClient::read; Ok(Ok) / Ok(Err(kind)) / Err(outcome on panic)
    pub fn read_once(&mut self) -> Result<Result<(), String>, Outcome> {
        let client = self.client.as_mut().expect("client");
        let mut got: Vec<BitmapEvent> = Vec::new();
        let res = guard(|| {
            client.read(|ev| {
                if let RdpEvent::Bitmap(b) = ev {
                    got.push(b);
                }
            })
        });
        let n = got.len();
        self.bitmaps.extend(got);
        self.reads_done += 1;
        match res {
            Err(p) => Err(panic_outcome(&p)),
            Ok(Ok(())) => {
                self.world.ctx.borrow_mut().ev("drv", format!("read -> Ok ({} bitmap events)", n));
                Ok(Ok(()))
            }
            Ok(Err(e)) => {
                let k = err_kind(&e);
                self.world.ctx.borrow_mut().ev("drv", format!("read -> Err {} ({} bitmap events)", k, n));
                Ok(Err(k))
            }
        }
    }

    /// frames the server has sent that the client has not read yet (connect itself consumes 6)
    /// something the server has sent is still unread: bytes on the raw transport, or plaintext the TLS layer of the
    /// client has already decrypted (how many PDUs one `read` takes is the library's business: no counting of calls)
    pub fn outstanding(&self) -> usize {
        let raw = self.world.wire.borrow().s2c.len();
        let buffered = self.client.as_ref().map(|c| c.has_buffered_data()).unwrap_or(false);
        raw + buffered as usize
    }

    /// read every outstanding frame; Ok(Err) on the first failing read
    pub fn drain(&mut self, max: usize) -> Result<Result<(), String>, Outcome> {
        let mut n = 0;
        loop {
            if self.outstanding() == 0 {
                // the server may not have seen the client's last writes yet
                if !self.world.pump() || self.outstanding() == 0 {
                    return Ok(Ok(()));
                }
            }
            if n >= max {
                return Ok(Err("too many reads".to_string()));
            }
            n += 1;
            match self.read_once()? {
                Ok(()) => {}
                Err(k) => return Ok(Err(k)),
            }
        }
    }

    /// read until the server considers the session active; every read must succeed
    pub fn activate(&mut self, max: usize) -> Result<Result<(), String>, Outcome> {
        match self.drain(max)? {
            Ok(()) => {}
            Err(k) => return Ok(Err(k)),
        }
        let phase = self.world.server.borrow().phase;
        if phase == Phase::Active {
            Ok(Ok(()))
        } else {
            Ok(Err(format!("activation stalled with the server in {:?}", phase)))
        }
    }

    pub fn shutdown(&mut self) -> Result<Result<(), String>, Outcome> {
        let client = self.client.as_mut().expect("client");
        let res = guard(|| client.shutdown());
        match res {
            Err(p) => Err(panic_outcome(&p)),
            Ok(Ok(())) => {
                self.world.ctx.borrow_mut().ev("drv", "shutdown -> Ok".to_string());
                Ok(Ok(()))
            }
            Ok(Err(e)) => {
                let k = err_kind(&e);
                self.world.ctx.borrow_mut().ev("drv", format!("shutdown -> Err {}", k));
                Ok(Err(k))
            }
        }
    }
}

/// The sequence oracle of C03 over the server's decoded history.
pub fn sequence_oracle(srv: &Server, cfg: &ClientCfg, expect_shutdown: bool, expected_activations: u32) -> Option<(String, String)> {
    let p: &ServerParams = &srv.p;
    let h = &srv.history;
    let sent_pump = |name: &str, nth: usize| -> Option<u64> { srv.sent.iter().filter(|(_, _, n)| n == name).nth(nth).map(|(_, pn, _)| *pn) };
    let mut i = 0usize;
    macro_rules! fail {
        ($site:expr, $($arg:tt)*) => { return Some(($site.to_string(), format!($($arg)*))) };
    }
    macro_rules! next {
        ($what:expr) => {{
            if i >= h.len() { fail!(concat!("missing/", $what), "the client never sent {} (history: {})", $what, history_names(srv)); }
            let e = &h[i]; i += 1; e
        }};
    }
    // 1 negotiation request
    let (_, _, m) = next!("connection-request");
    match m {
        ClientMsg::ConnectionRequest { flags, protocols, has_neg } => {
            if !*has_neg { fail!("connection-request/no-negotiation", "no RDP_NEG_REQ in the connection request"); }
            let want = 1 | if cfg.nla { 2 } else { 0 };
            // offering more (HYBRID_EX next to HYBRID) is the client's choice; offering less than configured is not
            if *protocols & want != want { fail!("connection-request/protocols", "requested protocols {:#x}, configuration implies {:#x}", protocols, want); }
            if (*flags & 1 != 0) != cfg.restricted { fail!("connection-request/restricted-flag", "RESTRICTED_ADMIN_MODE_REQUIRED={} but configured {}", flags & 1, cfg.restricted); }
        }
        other => fail!("order/connection-request", "first message is {}", other.name()),
    }
    // 2 connect-initial
    let (_, pn, m) = next!("connect-initial");
    match m {
        ClientMsg::ConnectInitial(ci) => {
            if let Some(cc) = sent_pump("connection-confirm", 0) { if *pn <= cc { fail!("dependency/connect-initial", "connect-initial sent before the connection confirm was available"); } }
            if srv.decode_errors.is_empty() {
                if ci.core.selected_protocol != Some(p.selected_protocol) { fail!("id/serverSelectedProtocol", "core data announces selected protocol {:?}, server selected {:#x}", ci.core.selected_protocol, p.selected_protocol); }
                if ci.core.width != cfg.width || ci.core.height != cfg.height { fail!("id/desktop-size", "core data {}x{} configured {}x{}", ci.core.width, ci.core.height, cfg.width, cfg.height); }
                if ci.core.layout != LAYOUTS[cfg.layout].1 { fail!("id/keyboard-layout", "core data layout {:#x} configured {:#x}", ci.core.layout, LAYOUTS[cfg.layout].1); }
            }
        }
        other => fail!("order/connect-initial", "expected connect-initial, got {}", other.name()),
    }
    let cr = sent_pump("connect-response", 0);
    let (_, pn, m) = next!("erect-domain");
    if !matches!(m, ClientMsg::ErectDomain { .. }) { fail!("order/erect-domain", "expected erect-domain, got {}", m.name()); }
    if let Some(c) = cr { if *pn <= c { fail!("dependency/erect-domain", "erect-domain sent before the connect response"); } }
    let (_, pn, m) = next!("attach-user");
    if !matches!(m, ClientMsg::AttachUser) { fail!("order/attach-user", "expected attach-user, got {}", m.name()); }
    if let Some(c) = cr { if *pn <= c { fail!("dependency/attach-user", "attach-user sent before the connect response"); } }
    // joins: exactly the user channel and the I/O channel, each after the previous confirm
    let mut joined = Vec::new();
    for k in 0..2 {
        let (_, pn, m) = next!("channel-join");
        match m {
            ClientMsg::ChannelJoin { initiator, channel } => {
                if *initiator != p.user_id { fail!("id/join-initiator", "join initiator {} but the assigned user id is {}", initiator, p.user_id); }
                joined.push(*channel);
                let dep = if k == 0 { sent_pump("attach-user-confirm", 0) } else { sent_pump("channel-join-confirm", 0) };
                if let Some(c) = dep { if *pn <= c { fail!("dependency/channel-join", "join #{} sent before the reply it depends on", k); } }
            }
            other => fail!("order/channel-join", "expected channel-join #{}, got {}", k, other.name()),
        }
    }
    joined.sort();
    let mut want = vec![p.user_id, p.io_channel];
    want.sort();
    if joined != want { fail!("id/joined-channels", "joined {:?}, expected the user channel and the I/O channel {:?}", joined, want); }
    // client info
    let (_, pn, m) = next!("client-info");
    match m {
        ClientMsg::Info { initiator, channel, .. } => {
            if *initiator != p.user_id { fail!("id/info-initiator", "info initiator {} vs user id {}", initiator, p.user_id); }
            if *channel != p.io_channel { fail!("id/info-channel", "info sent on channel {} vs I/O channel {}", channel, p.io_channel); }
            if let Some(c) = sent_pump("channel-join-confirm", 1) { if *pn <= c { fail!("dependency/client-info", "client info sent before the last join confirm"); } }
        }
        other => fail!("order/client-info", "expected client info, got {}", other.name()),
    }
    // activations
    let mut act = 0u32;
    let mut share_ids: Vec<u32> = Vec::new();
    for (_, _, n) in srv.sent.iter() { let _ = n; }
    let da_pumps: Vec<u64> = srv.sent.iter().filter(|(_, _, n)| n == "demand-active").map(|(_, pn, _)| *pn).collect();
    let _ = &mut share_ids;
    while i < h.len() {
        let (_, pn, m) = &h[i];
        match m {
            ClientMsg::Share { pdu: SharePdu::ConfirmActive(ca), initiator, channel, source } => {
                i += 1;
                if act as usize >= da_pumps.len() { fail!("extra/confirm-active", "confirm-active #{} without a demand-active", act); }
                if *pn <= da_pumps[act as usize] { fail!("dependency/confirm-active", "confirm-active sent before its demand-active"); }
                let sid = srv_share_id(srv, act as usize);
                if ca.share_id != sid { fail!("id/confirm-active-shareId", "confirm-active carries share id {:#x}, the latest demand-active assigned {:#x}", ca.share_id, sid); }
                if *initiator != p.user_id || *channel != p.io_channel { fail!("id/confirm-active-mcs", "confirm-active initiator/channel {}/{} vs {}/{}", initiator, channel, p.user_id, p.io_channel); }
                if *source != p.user_id { fail!("id/PDUSource", "PDUSource {} vs user id {}", source, p.user_id); }
                // the four finalisation PDUs in order
                let want: [&str; 4] = ["synchronize", "control(4)", "control(1)", "font-list"];
                for w in want.iter() {
                    if i >= h.len() { fail!(format!("missing/{}", w), "activation #{}: {} never sent (history: {})", act, w, history_names(srv)); }
                    let (_, _, m2) = &h[i];
                    i += 1;
                    if m2.name() != *w { fail!(format!("order/{}", w), "activation #{}: expected {}, got {}", act, w, m2.name()); }
                    if let ClientMsg::Share { pdu: SharePdu::Data { share_id, .. }, source, initiator, channel } = m2 {
                        if *share_id != sid { fail!("id/data-shareId", "{} carries share id {:#x}, expected {:#x}", w, share_id, sid); }
                        if *source != p.user_id { fail!("id/PDUSource", "{}: PDUSource {} vs user id {}", w, source, p.user_id); }
                        if *initiator != p.user_id || *channel != p.io_channel { fail!("id/data-mcs", "{}: initiator/channel {}/{}", w, initiator, channel); }
                    }
                }
                act += 1;
            }
            ClientMsg::Share { pdu: SharePdu::Data { pdu, .. }, .. } if pdu.is_unrelated_legal() => { i += 1; }
            ClientMsg::Share { pdu: SharePdu::Data { pdu: DataPdu::Input { .. }, share_id, .. }, source, initiator, channel } => {
                i += 1;
                if act == 0 { fail!("order/input-before-activation", "input PDU before any activation"); }
                let sid = srv_share_id(srv, act as usize - 1);
                if *share_id != sid { fail!("id/input-shareId", "input PDU carries share id {:#x}, the latest demand-active assigned {:#x}", share_id, sid); }
                if *source != p.user_id || *initiator != p.user_id || *channel != p.io_channel { fail!("id/input-ids", "input PDU ids {}/{}/{}", source, initiator, channel); }
            }
            ClientMsg::DisconnectUltimatum { .. } => {
                i += 1;
                if i != h.len() { fail!("order/after-ultimatum", "{} sent after the disconnect-provider ultimatum", h[i].2.name()); }
                if !expect_shutdown { fail!("extra/ultimatum", "disconnect ultimatum without shutdown"); }
                if act != expected_activations { fail!("count/activations", "{} activations completed, {} demand-actives were sent", act, expected_activations); }
                return None;
            }
            ClientMsg::Share { pdu: SharePdu::Data { pdu, .. }, .. } if pdu.is_unrelated_legal() => { i += 1; }
            other => fail!("order/unexpected", "unexpected {} after the connection sequence (history: {})", other.name(), history_names(srv)),
        }
    }
    if act != expected_activations { fail!("count/activations", "{} activations completed, {} expected (history: {})", act, expected_activations, history_names(srv)); }
    if expect_shutdown { fail!("missing/disconnect-provider-ultimatum", "shutdown did not send a disconnect-provider ultimatum (history: {})", history_names(srv)); }
    None
}

fn srv_share_id(srv: &Server, nth: usize) -> u32 {
    srv.share_ids.get(nth).copied().unwrap_or(srv.p.share_id)
}

pub fn history_names(srv: &Server) -> String {
    srv.history.iter().map(|(_, _, m)| m.name()).collect::<Vec<_>>().join(", ")
}

pub fn c04_violation(srv: &Server) -> Option<Outcome> {
    srv.decode_errors.first().map(|(_, key, frame)| viol("c04/strict-parse", key, format!("strict parser rejected a client message: {} ; frame {}", key, crate::tape::hex_short(frame))))
}

/// Bring up a complete, active session for the scenarios that start from there (C06, C10-C12).
/// A failure here is reported as "<prefix>/session-not-established" (it can only happen on a tree where
/// the connection sequence itself is broken).
pub fn establish(env: &mut crate::scen::Env, prefix: &str, auto_activate: bool) -> Result<(Session, ClientCfg, ServerParams), Outcome> {
    let ctxrc = env.ctx.clone();
    let (cfg, params, net, packing) = {
        let mut ctx = ctxrc.borrow_mut();
        let mut cfg = ClientCfg::plain();
        cfg.nla = ctx.chance("est_nla", 1, 4);
        cfg.width = *ctx.pick("est_w", &[800u16, 1024, 1, 65535]);
        cfg.height = *ctx.pick("est_h", &[600u16, 768, 1, 65535]);
        let selected = if cfg.nla { 2 } else { 1 };
        let params = if ctx.chance("est_params", 1, 2) { ServerParams::generate(&mut ctx, selected) } else { ServerParams::default_for(selected) };
        let net = gen_benign_net(&mut ctx);
        let packing = match ctx.choose("packing", 4) { 0 => crate::refsrv::server::Packing::OnePerRecord, 1 => crate::refsrv::server::Packing::Coalesce, 2 => crate::refsrv::server::Packing::Split, _ => crate::refsrv::server::Packing::Mixed };
        ctx.step_budget = 400_000;
        ctx.key_str(&format!("{:?}{:?}{:?}{}", net.read_mode, net.write_mode, packing, cfg.nla));
        (cfg, params, net, packing)
    };
    let world = World::new(ctxrc.clone(), params.clone(), net);
    {
        let mut srv = world.server.borrow_mut();
        srv.packing = packing;
        srv.auto_activate = auto_activate;
    }
    if cfg.nla {
        crate::scen::install_nla(&world, &cfg);
    }
    let mut s = Session::connect(world, &cfg)?;
    if let Err(k) = &s.connect_result {
        // In the worlds where the scenario itself plays the activation letter by letter the server sends no demand-active
        // on its own. A client that does the activation inside connect() then waits there for ever: connecting against
        // a server that does send one is C03's business, and this scenario has nothing to say about such a client.
        let (phase, info_seen) = { let srv = s.world.server.borrow(); (srv.phase, srv.info_seen) };
        if !auto_activate && k.contains("TimedOut") && phase == Phase::Activation && info_seen {
            ctxrc.borrow_mut().probe("client_activates_inside_connect");
            return Err(Outcome::Pass);
        }
        return Err(viol(&format!("{}/session-not-established", prefix), "connect", format!("connect failed: {}", k)));
    }
    if !auto_activate {
        // how much of the server's setup messages connect() itself consumes is the library's business
        if let Err(k) = s.drain(8)? {
            return Err(viol(&format!("{}/session-not-established", prefix), "after-connect", format!("reading what connect left unread failed: {}", k)));
        }
    }
    if auto_activate {
        match s.activate(40)? {
            Ok(()) => {}
            Err(k) => return Err(viol(&format!("{}/session-not-established", prefix), "activation", format!("activation failed: {}", k))),
        }
    }
    Ok((s, cfg, params))
}
