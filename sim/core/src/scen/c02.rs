//! C02 — negotiated transport security is honoured; no downgrade.

use crate::harness::{err_kind, guard, panic_outcome, viol, Outcome};
use crate::refsrv::build::{CcKind, ServerParams};
use crate::refsrv::server::TRUSTED;
use crate::refsrv::world::World;
use crate::scen::session::{gen_benign_net, ClientCfg, Session};
use crate::scen::Env;
use rdp::core::tpkt;
use rdp::core::x224;
use rdp::model::link::{Link, Stream};
use rdp::nla::ntlm::Ntlm;

fn sel_class(s: u32) -> String {
    match s { 0 => "RDP".into(), 1 => "SSL".into(), 2 => "HYBRID".into(), 8 => "HYBRID_EX".into(), x if x < 256 => "other-low-byte".into(), _ => "high-bits".into() }
}
fn mask_class(m: u32) -> String {
    match m { 0 => "none".into(), 1 => "ssl".into(), 2 => "hybrid".into(), 3 => "ssl+hybrid".into(), _ => format!("{:#x}", m) }
}

/// do the raw client bytes after the connection request consist of TLS records only?
fn only_tls_records(raw: &[u8]) -> Result<usize, String> {
    let mut pos = 0;
    let mut n = 0;
    while pos < raw.len() {
        if raw.len() - pos < 5 {
            return Err(format!("{} stray bytes at offset {}", raw.len() - pos, pos));
        }
        let t = raw[pos];
        if !(20..=24).contains(&t) || raw[pos + 1] != 3 || raw[pos + 2] > 4 {
            return Err(format!("bytes at offset {} are not a TLS record header: {:02x?}", pos, &raw[pos..pos + 5]));
        }
        let l = u16::from_be_bytes([raw[pos + 3], raw[pos + 4]]) as usize;
        if l > 16384 + 2048 || pos + 5 + l > raw.len() {
            return Err(format!("TLS record at offset {} has an impossible length {}", pos, l));
        }
        pos += 5 + l;
        n += 1;
    }
    Ok(n)
}

pub fn run(env: &mut Env) -> Outcome {
    let ctxrc = env.ctx.clone();
    let (direct, mask, use_auth, check_cert, params, net, cfg) = {
        let mut ctx = ctxrc.borrow_mut();
        let direct = ctx.chance("direct_x224", 1, 2);
        let mut cfg = ClientCfg::plain();
        cfg.nla = ctx.chance("use_nla", 1, 2);
        cfg.check_cert = ctx.chance("check_cert", 1, 2);
        cfg.restricted = ctx.chance("restricted", 1, 4);
        cfg.blank = ctx.chance("blank", 1, 4);
        cfg.builder_order = ctx.choose("builder_order", 3) as u8;
        cfg.password = "C02-secret-passw0rd".to_string();
        let mask: u32 = if direct {
            match ctx.choose("mask_c", 8) { 0 => 1, 1 => 3, 2 => 0, 3 => 2, 4 => 8, 5 => 0xb, 6 => 9, _ => ctx.choose("mask_v", 16) as u32 }
        } else if cfg.nla { 3 } else { 1 };
        let use_auth = !direct || !ctx.chance("auth_none", 1, 4);
        // the reply
        let stratum = if env.thorough && env.case % 2 == 0 { Some((env.case / 2 % 256) as u32) } else { None };
        let sel: u32 = match stratum {
            Some(v) => v,
            None => match ctx.choose("sel_c", 10) {
                0 => 0, 1 => 1, 2 => 2, 3 => 8,
                4 => ctx.choose("sel_low", 256) as u32,
                5 => *ctx.pick("sel_bits", &[0x100u32, 0x10000, 0x80000000, 0xffffffff, 3, 0xa, 0x101, 0x102, 0x80000001, 0x7fffffff, 4, 0x10]),
                6 => 0,
                7 => 2,
                _ => ctx.choose("sel_any", 1 << 32) as u32,
            },
        };
        let mut p = ServerParams::default_for(sel);
        p.tls12 = ctx.chance("tls12_server", 1, 3);
        p.cc_kind = match ctx.choose("cc_kind", 10) {
            0..=4 => CcKind::Response,
            5 => CcKind::Failure(*ctx.pick("fail_code", &[1u32, 2, 3, 4, 5, 6, 0, 0xffffffff])),
            6 => CcKind::EchoRequest,
            7 => CcKind::Absent,
            _ => CcKind::UnknownType(*ctx.pick("unk_type", &[0u8, 4, 5, 0x7f, 0x80, 0xff, 0x12, 6])),
        };
        p.neg_flags = ctx.choose("neg_flags", 256) as u8;
        p.honour_restricted_admin = false;
        p.neg_length = if ctx.chance("neg_len_bad", 1, 8) { *ctx.pick("neg_len", &[0u16, 7, 9, 0xffff, 16]) } else { 8 };
        p.cert = ctx.choose("cert", TRUSTED.len() as u64) as usize;
        let net = gen_benign_net(&mut ctx);
        ctx.step_budget = 100_000;
        ctx.key_str(&format!("{:?}|{}|{}|{}|{}|{}|{}", p.cc_kind, sel_class(sel), mask_class(mask), direct, use_auth, cfg.check_cert, TRUSTED[p.cert]));
        (direct, mask, use_auth, cfg.check_cert, p, net, cfg)
    };
    env.cover.push(("selected_low_byte", (params.selected_protocol & 0xff) as u64));
    env.cover.push(("neg_flags", params.neg_flags as u64));
    let sel = params.selected_protocol;
    let kind = params.cc_kind.clone();
    // history: a process may have made other connections before this one (with other settings); whatever the
    // client keeps from them must not weaken this connection. The earlier connection is part of the case.
    let prelude = ctxrc.borrow_mut().chance("earlier_connection", 1, 3);
    if prelude {
        let mut pcfg = ClientCfg::plain();
        pcfg.check_cert = !cfg.check_cert;
        pcfg.nla = false;
        let mut pp = ServerParams::default_for(1);
        pp.cert = if pcfg.check_cert { 0 } else { ctxrc.borrow_mut().choose("earlier_cert", TRUSTED.len() as u64) as usize };
        let pworld = World::new(ctxrc.clone(), pp, crate::wire::NetCfg::benign());
        ctxrc.borrow_mut().ev("drv", format!("earlier connection in the same process, certificate checking {}", pcfg.check_cert));
        match Session::connect(pworld, &pcfg) {
            Ok(mut s) => { if s.client.is_some() { let _ = s.shutdown(); } }
            Err(o) => return o,
        }
        ctxrc.borrow_mut().probe("earlier_connection_in_process");
    }
    let world = World::new(ctxrc.clone(), params.clone(), net);
    if sel & 0xa != 0 {
        crate::scen::install_nla(&world, &cfg);
    }
    // run the client
    let result: Result<(), String>;
    if direct {
        let end = world.client_end();
        let mut auth = Ntlm::new(cfg.domain.clone(), cfg.user.clone(), cfg.password.clone());
        let r = guard(|| {
            let t = tpkt::Client::new(Link::new(Stream::Raw(end)));
            if use_auth {
                x224::Client::connect(t, mask, check_cert, Some(&mut auth), cfg.restricted, cfg.blank).map(|_| ())
            } else {
                x224::Client::connect(t, mask, check_cert, None, cfg.restricted, cfg.blank).map(|_| ())
            }
        });
        result = match r {
            Err(p) => return panic_outcome(&p),
            Ok(Ok(())) => Ok(()),
            Ok(Err(e)) => Err(err_kind(&e)),
        };
        ctxrc.borrow_mut().ev("drv", format!("x224 connect mask={:#x} auth={} -> {:?}", mask, use_auth, result));
    } else {
        let mut connector = cfg.connector();
        // history on the same Connector: earlier attempts that the server answered with a negotiation failure
        let failures = { let mut c = ctxrc.borrow_mut(); if c.chance("earlier_failures_same_connector", 1, 4) { 1 + c.choose("n_earlier_failures", 3) } else { 0 } };
        for _ in 0..failures {
            let mut fp = ServerParams::default_for(1);
            fp.cc_kind = CcKind::Failure(*ctxrc.borrow_mut().pick("earlier_fail_code", &[1u32, 2, 3, 5]));
            let fworld = World::new(ctxrc.clone(), fp, crate::wire::NetCfg::benign());
            match Session::connect_with(fworld, &cfg, &mut connector) {
                Ok(_) => {}
                Err(o) => return o,
            }
            ctxrc.borrow_mut().probe("earlier_negotiation_failure_same_connector");
        }
        let s = match Session::connect_with(world_clone(&world), &cfg, &mut connector) {
            Ok(s) => s,
            Err(o) => return o,
        };
        result = s.connect_result.clone();
    }
    world.pump();
    world.pump();
    let srv = world.server.borrow();
    let wire = world.wire.borrow();
    // what the client really put into its request (it must equal what the configuration implies)
    let offered_on_wire = srv.client_requested;
    let offered_less = if direct { false } else { offered_on_wire & mask != mask };
    if !srv.history.is_empty() && offered_less {
        return viol("c02/offered-mask", &format!("configured={} sent={}", mask_class(mask), mask_class(offered_on_wire)), format!("the configuration implies requested protocols {:#x} but the connection request carries {:#x}", mask, offered_on_wire));
    }
    // a confirm without negotiation data is a server that only knows standard RDP security: what a client that offered
    // nothing else (mask 0) asked for; for any other offer it is a selection that was not offered
    // "offered" is what the connection request carried (the argument of a direct call when nothing was sent at all)
    let mask = if srv.history.is_empty() { mask } else { offered_on_wire };
    let legit = (kind == CcKind::Response && ((sel == 1 && mask & 1 != 0) || (sel == 2 && mask & 2 != 0) || (sel == 8 && mask & 8 != 0) || (sel == 0 && mask == 0)))
        || (kind == CcKind::Absent && mask == 0);
    let legit_is_tls = legit && kind == CcKind::Response && sel != 0;
    let cr_len = if wire.c2s_all.len() >= 4 { u16::from_be_bytes([wire.c2s_all[2], wire.c2s_all[3]]) as usize } else { 0 };
    let after_cr: &[u8] = if wire.c2s_all.len() > cr_len { &wire.c2s_all[cr_len..] } else { &[] };
    let kind_s = match &kind { CcKind::Response => "response", CcKind::Failure(_) => "failure", CcKind::EchoRequest => "echoed-request", CcKind::Absent => "absent", CcKind::UnknownType(_) => "unknown-type" };
    let site = format!("{} selected={} offered={}", kind_s, sel_class(sel), mask_class(mask));
    if !legit {
        ctxrc.borrow_mut().probe("illegitimate_selection");
        if result.is_ok() {
            return viol("c02/continued", &site, format!("the server answered with {} selecting {:#x} while the client offered {:#x}: connect returned Ok ({} raw bytes followed the request)", kind_s, sel, mask, after_cr.len()));
        }
        if !after_cr.is_empty() {
            let clear_ntlm = after_cr.windows(8).any(|w| w == b"NTLMSSP\0");
            return viol("c02/continued", &site, format!("illegitimate reply ({} selecting {:#x}, offered {:#x}) but the client wrote {} more raw bytes{} before failing with {:?}", kind_s, sel, mask, after_cr.len(), if clear_ntlm { " (NTLM token in clear!)" } else { "" }, result));
        }
    } else if legit_is_tls {
        ctxrc.borrow_mut().probe("legitimate_tls_selection");
        // everything after the request must be TLS
        if let Err(e) = only_tls_records(after_cr) {
            return viol("c02/clear-bytes-after-negotiation", &site, format!("TLS was selected but {}", e));
        }
        if check_cert && !TRUSTED[srv.p.cert] {
            ctxrc.borrow_mut().probe("untrusted_certificate_checked");
            if result.is_ok() {
                return viol("c02/untrusted-certificate-accepted", &site, "certificate checking is on and the server certificate is not trusted, yet connect returned Ok".to_string());
            }
            if srv.app_in_total != 0 {
                return viol("c02/untrusted-certificate-bytes", &site, format!("certificate checking is on and the certificate untrusted, yet the server received {} application bytes", srv.app_in_total));
            }
        }
    }
    // in any case: credential-bearing material never outside TLS
    if sel != 0 || mask != 0 {
        let plain = &srv.plain_in;
        if plain.windows(8).any(|w| w == b"NTLMSSP\0") {
            return viol("c02/credentials-in-clear", "ntlm-token", "an NTLM token was written on the raw transport".to_string());
        }
        let pw16: Vec<u8> = cfg.password.encode_utf16().flat_map(|u| u.to_le_bytes().to_vec()).collect();
        if plain.windows(pw16.len()).any(|w| w == &pw16[..]) || wire.c2s_all.windows(pw16.len()).any(|w| w == &pw16[..]) {
            return viol("c02/credentials-in-clear", "password", "the password appears on the raw transport".to_string());
        }
    }
    ctxrc.borrow_mut().nontrivial = true;
    Outcome::Pass
}

/// Session::connect takes the world by value; hand it a second handle on the same shared state
fn world_clone(w: &World) -> World {
    World { ctx: w.ctx.clone(), wire: w.wire.clone(), cfg: w.cfg.clone(), server: w.server.clone() }
}
