//! C04 — every PDU the client emits is well formed under a strict independent parser.
//! The workload is the C03 session with names and credentials drawn from all of Unicode; the
//! oracle is the strict decoder of the reference server plus the string round-trip below.

use crate::harness::{viol, Outcome};
use crate::refsrv::server::Server;
use crate::refsrv::strict::ClientMsg;
use crate::scen::session::ClientCfg;
use crate::scen::Env;

pub fn run(env: &mut Env) -> Outcome {
    crate::scen::c03::run_mode(env, true)
}

/// strings must arrive as the configured strings (clientName: at most 15 UTF-16 units of it)
pub fn string_oracle(srv: &Server, cfg: &ClientCfg) -> Option<Outcome> {
    for (_, _, m) in srv.history.iter() {
        match m {
            ClientMsg::ConnectInitial(ci) => {
                let units: Vec<u16> = cfg.name.encode_utf16().collect();
                let got: Vec<u16> = ci.core.name.encode_utf16().collect();
                if got.len() > 15 {
                    return Some(viol("c04/clientName", "longer-than-15", format!("clientName has {} UTF-16 units", got.len())));
                }
                if units.len() <= 15 {
                    if got != units {
                        return Some(viol("c04/clientName", "differs-from-configured", format!("clientName {:?} but configured {:?}", ci.core.name, cfg.name)));
                    }
                } else {
                    // truncated: must be a prefix of the configured name (a split surrogate pair may cost one more unit)
                    if got.len() < 14 || units[..got.len()] != got[..] {
                        return Some(viol("c04/clientName", "bad-truncation", format!("clientName {:?} is not a 14/15-unit prefix of {:?}", ci.core.name, cfg.name)));
                    }
                }
            }
            ClientMsg::Info { info, .. } => {
                let (d, u, p) = if cfg.restricted { ("", "", "") } else { (cfg.domain.as_str(), cfg.user.as_str(), cfg.password.as_str()) };
                if info.domain != d || info.user != u || info.password != p {
                    return Some(viol("c04/info-strings", "round-trip", format!("info packet strings {:?}/{:?}/<pw {} chars> differ from the configured {:?}/{:?}/<pw {} chars>", info.domain, info.user, info.password.chars().count(), d, u, p.chars().count())));
                }
            }
            _ => {}
        }
    }
    None
}
