//! C11 — user input is transmitted exactly once, in order, with exact values.

use crate::harness::{err_kind, guard, panic_outcome, viol, Outcome};
use crate::refsrv::build;
use crate::refsrv::strict::{ClientMsg, DataPdu, InputEvent, SharePdu};
use crate::scen::session::establish;
use crate::scen::Env;
use rdp::core::event::{BitmapEvent, KeyboardEvent, PointerButton, PointerEvent, RdpEvent};

#[derive(Clone, Debug)]
enum Sub {
    Pointer { x: u16, y: u16, button: u8, down: bool },
    Key { code: u16, down: bool },
    Unsendable,
}

pub fn run(env: &mut Env) -> Outcome {
    let ctxrc = env.ctx.clone();
    let (mut s, _cfg, _params) = match establish(env, "c11", true) {
        Ok(x) => x,
        Err(o) => return o,
    };
    let base_hist = s.world.server.borrow().history.len();
    let n = { let mut ctx = ctxrc.borrow_mut(); if ctx.chance("long_sequence", 1, 24) { 250 + ctx.choose("n_submissions_long", 80) as usize } else { 1 + ctx.choose("n_submissions", 60) as usize } };
    let mut accepted: Vec<Sub> = Vec::new();
    let mut reactivation_marks: Vec<usize> = Vec::new();
    for k in 0..n {
        // interleaved server traffic
        let traffic = ctxrc.borrow_mut().choose("traffic", 6);
        if traffic == 5 {
            // the server re-activates the session (possibly with another desktop size): pure server traffic as far as
            // the submitted input is concerned
            if !ctxrc.borrow_mut().chance("reactivation_now", 1, 4) {
                // keep it rare, it is expensive
            } else {
                {
                    let mut ctx = ctxrc.borrow_mut();
                    let w = *ctx.pick("new_width", &[1024u16, 800, 1920, 640, 1]);
                    let h = *ctx.pick("new_height", &[768u16, 600, 1080, 480, 1]);
                    drop(ctx);
                    let mut srv = s.world.server.borrow_mut();
                    for c in srv.p.caps.iter_mut() {
                        if c.0 == 0x02 && c.1.len() >= 12 {
                            c.1[8..10].copy_from_slice(&w.to_le_bytes());
                            c.1[10..12].copy_from_slice(&h.to_le_bytes());
                        }
                    }
                    let sid = srv.current_share_id.wrapping_add(0x10001);
                    srv.phase = crate::refsrv::server::Phase::Activation;
                    srv.send_deactivate_all();
                    srv.send_demand_active(sid);
                    srv.flush();
                }
                match s.activate(40) {
                    Err(o) => return o,
                    Ok(Err(k)) => return viol("c11/session-not-established", "reactivation", format!("re-activation in the middle of the session failed: {}", k)),
                    Ok(Ok(())) => {}
                }
                ctxrc.borrow_mut().probe("reactivation_between_submissions");
                // the history compared below starts after the client's finalization PDUs
                reactivation_marks.push(s.world.server.borrow().history.len());
            }
        } else if traffic != 0 {
            {
                let mut ctx = ctxrc.borrow_mut();
                let mut srv = s.world.server.borrow_mut();
                match traffic {
                    1 => {
                        let (u, _r) = crate::scen::c10::gen_fastpath_pdu(&mut ctx, 300, true);
                        drop(ctx);
                        srv.send_fastpath("fast-path", &u, false);
                    }
                    2 => { drop(ctx); srv.send_data_pdu("set-error-info", 0x2f, &build::set_error_info_payload(0)); }
                    4 => {
                        // a share-control PDU the client does not implement (server redirection / unknown type): reading it
                        // may fail, the session goes on
                        let t = *ctx.pick("sc_type", &[0x1au16, 0x12, 0x1f]);
                        drop(ctx);
                        let mut b = crate::refsrv::bytes::Wr::new();
                        b.u16le("redir.pad", 0).u16le("redir.flags", 0x0400).u16le("redir.length", 12).u32le("redir.sessionId", 1).u32le("redir.redirFlags", 0);
                        let w = build::send_data_indication(&srv.p, &build::share_control(&srv.p, t, &b));
                        srv.queue("unimplemented-share-control-pdu", &w);
                    }
                    _ => {
                        drop(ctx);
                        let mut w = crate::refsrv::bytes::Wr::new();
                        w.u32le("ssi.infoType", 0).bytes("ssi.data", &[0u8; 8]);
                        srv.send_data_pdu("save-session-info", 0x26, &w);
                    }
                }
                srv.flush();
            }
            ctxrc.borrow_mut().probe("interleaved_server_traffic");
            match s.read_once() {
                Err(o) => return o,
                Ok(_) => {}
            }
        }
        let (sub, lenient) = {
            let mut ctx = ctxrc.borrow_mut();
            let repeat = if !accepted.is_empty() && ctx.chance("repeat_earlier", 1, 4) { Some(accepted[accepted.len() - 1 - ctx.choose("repeat_which", accepted.len().min(4) as u64) as usize].clone()) } else { None };
            if repeat.is_some() { ctx.probe("repeated_submission"); }
            let sub = if let Some(r) = repeat { r } else { match ctx.choose("sub_kind", 8) {
                0 | 1 | 2 => Sub::Pointer { x: ctx.u16_boundary("ptr_x"), y: ctx.u16_boundary("ptr_y"), button: ctx.choose("button", 4) as u8, down: ctx.chance("down", 1, 2) },
                3 | 4 | 5 => Sub::Key { code: ctx.u16_boundary("key_code"), down: ctx.chance("down", 1, 2) },
                6 => Sub::Key { code: ctx.choose("key_code_any", 65536) as u16, down: ctx.chance("down", 1, 2) },
                _ => Sub::Unsendable,
            } };
            (sub, ctx.chance("try_write", 1, 2))
        };
        let ev = match &sub {
            Sub::Pointer { x, y, button, down } => RdpEvent::Pointer(PointerEvent { x: *x, y: *y, button: match button { 1 => PointerButton::Left, 2 => PointerButton::Right, 3 => PointerButton::Middle, _ => PointerButton::None }, down: *down }),
            Sub::Key { code, down } => RdpEvent::Key(KeyboardEvent { code: *code, down: *down }),
            Sub::Unsendable => RdpEvent::Bitmap(BitmapEvent { dest_left: 0, dest_top: 0, dest_right: 0, dest_bottom: 0, width: 1, height: 1, bpp: 32, is_compress: false, data: vec![1, 2, 3, 4] }),
        };
        s.world.pump();
        let before = s.world.server.borrow().app_in_total;
        let client = s.client.as_mut().unwrap();
        let res = guard(|| if lenient { client.try_write(ev) } else { client.write(ev) });
        let res = match res { Ok(r) => r, Err(p) => return panic_outcome(&p) };
        s.world.pump();
        let after = s.world.server.borrow().app_in_total;
        ctxrc.borrow_mut().ev("drv", format!("submit#{} {:?} via {} -> {}", k, sub, if lenient { "try_write" } else { "write" }, match &res { Ok(_) => "Ok".to_string(), Err(e) => err_kind(e) }));
        match (&sub, &res) {
            (Sub::Unsendable, Ok(_)) => return viol("c11/unsendable-accepted", if lenient { "try_write" } else { "write" }, "an event kind that cannot be sent was accepted".to_string()),
            (Sub::Unsendable, Err(_)) => {
                if after != before {
                    return viol("c11/unsendable-bytes-on-wire", "bitmap-event", format!("refused event put {} bytes on the wire", after - before));
                }
                ctxrc.borrow_mut().probe("unsendable_refused");
            }
            (_, Err(e)) => return viol("c11/input-refused", &err_kind(e), format!("submission #{} {:?} was refused in an active session: {}", k, sub, err_kind(e))),
            (_, Ok(_)) => accepted.push(sub.clone()),
        }
    }
    s.world.pump();
    // the server's view
    let srv = s.world.server.borrow();
    if let Some(o) = crate::scen::session::c04_violation(&srv) {
        return o;
    }
    let mut seen: Vec<(u32, InputEvent)> = Vec::new();
    for (_, _, m) in srv.history[base_hist..].iter() {
        match m {
            ClientMsg::Share { pdu: SharePdu::Data { pdu, .. }, .. } if pdu.is_unrelated_legal() => {}
            ClientMsg::Share { pdu: SharePdu::Data { pdu: DataPdu::Input { events }, .. }, .. } => {
                if events.len() != 1 {
                    return viol("c11/numEvents", "not-one", format!("an input PDU carries {} events", events.len()));
                }
                seen.push(events[0].clone());
            }
            ClientMsg::Share { pdu: SharePdu::ConfirmActive(_), .. } | ClientMsg::Share { pdu: SharePdu::Data { pdu: DataPdu::Synchronize { .. }, .. }, .. } | ClientMsg::Share { pdu: SharePdu::Data { pdu: DataPdu::Control { .. }, .. }, .. } | ClientMsg::Share { pdu: SharePdu::Data { pdu: DataPdu::FontList { .. }, .. }, .. } if !reactivation_marks.is_empty() => {}
            ClientMsg::Share { pdu: SharePdu::Data { pdu, .. }, .. } if pdu.is_unrelated_legal() => {}
            other => return viol("c11/unexpected-client-message", &other.name(), format!("client sent {} while only input was submitted", other.name())),
        }
    }
    for (i, sub) in accepted.iter().enumerate() {
        if i >= seen.len() {
            return viol("c11/lost", "missing-input-pdu", format!("{} submissions accepted, {} input PDUs arrived; first lost: #{} {:?}", accepted.len(), seen.len(), i, sub));
        }
        let (_, ev) = &seen[i];
        match (sub, ev) {
            (Sub::Pointer { x, y, button, down }, InputEvent::Mouse { flags, x: gx, y: gy }) => {
                if gx != x || gy != y {
                    return viol("c11/value", "pointer-coordinates", format!("submission #{}: sent ({}, {}) arrived ({}, {})", i, x, y, gx, gy));
                }
                let want_btn: u16 = match button { 1 => 0x1000, 2 => 0x2000, 3 => 0x4000, _ => 0x0800 };
                if flags & 0x7800 != want_btn {
                    return viol("c11/value", "pointer-button-flag", format!("submission #{}: button {} arrived with flags {:#06x}", i, button, flags));
                }
                if *button != 0 && ((flags & 0x8000 != 0) != *down) {
                    return viol("c11/value", "pointer-down-flag", format!("submission #{}: down={} arrived with flags {:#06x}", i, down, flags));
                }
                if flags & 0x07ff != 0 {
                    return viol("c11/value", "pointer-stray-flags", format!("submission #{}: flags {:#06x}", i, flags));
                }
            }
            (Sub::Key { code, down }, InputEvent::Scancode { flags, code: gc }) => {
                if gc != code {
                    return viol("c11/value", "scancode", format!("submission #{}: code {:#x} arrived as {:#x}", i, code, gc));
                }
                if (flags & 0x8000 != 0) == *down {
                    return viol("c11/value", "key-release-flag", format!("submission #{}: down={} arrived with flags {:#06x}", i, down, flags));
                }
                if flags & 0x7fff != 0 {
                    // the API carries a scancode and a press state, nothing else: no extended / was-down / other bits
                    return viol("c11/value", "key-stray-flags", format!("submission #{}: flags {:#06x} for down={}", i, flags, down));
                }
            }
            (s2, e2) => return viol("c11/order-or-kind", "kind-mismatch", format!("submission #{} {:?} arrived as {:?}", i, s2, e2)),
        }
    }
    if seen.len() > accepted.len() {
        return viol("c11/duplicate", "extra-input-pdu", format!("{} submissions accepted, {} input PDUs arrived", accepted.len(), seen.len()));
    }
    let mut ctx = ctxrc.borrow_mut();
    ctx.key_add(accepted.len() as u64);
    ctx.nontrivial = !accepted.is_empty();
    Outcome::Pass
}
