//! The simulated TCP connection. `ClientEnd` is handed to the real rdp-rs code as its
//! `S: Read + Write`; `ServerEnd` is the non-blocking end used by the reference server.
//! Every call asks the tape how many bytes move and whether a fault fires.

use crate::tape::Ctx;
use std::cell::RefCell;
use std::collections::VecDeque;
use std::io::{self, ErrorKind, Read, Write};
use std::rc::Rc;

pub struct Wire {
    pub c2s: VecDeque<u8>,
    pub s2c: VecDeque<u8>,
    /// lengths of the not yet (completely) delivered server segments
    pub s2c_segs: VecDeque<usize>,
    /// everything the client ever wrote, raw
    pub c2s_all: Vec<u8>,
    /// (log seq, offset, len) of every client write
    pub c2s_writes: Vec<(u64, usize, usize)>,
    /// total bytes the server wrote
    pub s2c_total: usize,
    /// total bytes handed out to client reads
    pub delivered: usize,
    pub server_fin: bool,
    pub server_rst: bool,
    pub client_fin: bool,
}

impl Wire {
    pub fn new() -> Wire {
        Wire {
            c2s: VecDeque::new(),
            s2c: VecDeque::new(),
            s2c_segs: VecDeque::new(),
            c2s_all: Vec::new(),
            c2s_writes: Vec::new(),
            s2c_total: 0,
            delivered: 0,
            server_fin: false,
            server_rst: false,
            client_fin: false,
        }
    }
    pub fn push_s2c(&mut self, data: &[u8]) {
        if data.is_empty() {
            return;
        }
        self.s2c.extend(data.iter());
        self.s2c_segs.push_back(data.len());
        self.s2c_total += data.len();
    }
}

#[derive(Clone, Debug, PartialEq)]
pub enum ReadMode {
    Whole,
    /// at most k bytes per read
    Cap(usize),
    /// random size per read, from the tape
    Random,
    /// split exactly at these absolute stream offsets (plus whole otherwise)
    AtOffsets(Vec<usize>),
}

#[derive(Clone, Debug, PartialEq)]
pub enum WriteMode {
    Whole,
    Cap(usize),
    Random,
    /// whole buffer most of the time, a random part now and then (a send buffer filling up)
    Bursty,
}

#[derive(Clone, Debug)]
pub struct NetCfg {
    pub read_mode: ReadMode,
    /// a read never crosses the boundary of two server writes
    pub respect_segments: bool,
    /// chance (out of 16) that a read is interrupted first
    pub eintr_read: u64,
    pub write_mode: WriteMode,
    /// a write may first accept 0 bytes... (Ok(0)) before making progress
    pub zero_write: u64,
    pub eintr_write: u64,
    /// write error once this many bytes were accepted in total
    pub write_fail_at: Option<usize>,
    pub write_fail_kind: ErrorKind,
    /// the write error fires once, then the stream works again
    pub write_fail_transient: bool,
    /// orderly EOF once this many bytes were delivered in total
    pub read_eof_at: Option<usize>,
    /// connection reset once this many bytes were delivered in total
    pub read_rst_at: Option<usize>,
    /// pump the server right after each client write (server "eagerness")
    pub eager: u64,
}

impl NetCfg {
    pub fn benign() -> NetCfg {
        NetCfg {
            read_mode: ReadMode::Whole,
            respect_segments: false,
            eintr_read: 0,
            write_mode: WriteMode::Whole,
            zero_write: 0,
            eintr_write: 0,
            write_fail_at: None,
            write_fail_kind: ErrorKind::BrokenPipe,
            write_fail_transient: false,
            read_eof_at: None,
            read_rst_at: None,
            eager: 0,
        }
    }
}

pub trait Pump {
    /// let the peer run; returns true if it produced or consumed anything
    fn pump(&mut self) -> bool;
}

pub struct ClientEnd {
    pub wire: Rc<RefCell<Wire>>,
    pub ctx: Rc<RefCell<Ctx>>,
    pub cfg: Rc<RefCell<NetCfg>>,
    pub peer: Option<Rc<RefCell<dyn Pump>>>,
}

impl ClientEnd {
    pub fn new(wire: Rc<RefCell<Wire>>, ctx: Rc<RefCell<Ctx>>, cfg: Rc<RefCell<NetCfg>>, peer: Option<Rc<RefCell<dyn Pump>>>) -> ClientEnd {
        ClientEnd { wire, ctx, cfg, peer }
    }

    fn pump_peer(&self) -> bool {
        if let Some(p) = &self.peer {
            // the peer may already be running further up the stack (re-entrancy through TLS BIO):
            // in that case it is the one that will produce the bytes, do not pump again
            if let Ok(mut g) = p.try_borrow_mut() {
                return g.pump();
            }
        }
        false
    }
}

impl Read for ClientEnd {
    fn read(&mut self, buf: &mut [u8]) -> io::Result<usize> {
        if !self.ctx.borrow_mut().step() {
            return Err(io::Error::new(ErrorKind::Other, "sim: step budget exhausted"));
        }
        if buf.is_empty() {
            return Ok(0);
        }
        // bytes available? otherwise the client is about to block: let the server run
        let mut pumped = 0;
        loop {
            let avail = self.wire.borrow().s2c.len();
            if avail > 0 {
                break;
            }
            {
                let w = self.wire.borrow();
                if w.server_rst {
                    self.ctx.borrow_mut().ev("net", "read: RST".to_string());
                    return Err(io::Error::new(ErrorKind::ConnectionReset, "sim: connection reset by peer"));
                }
                if w.server_fin {
                    self.ctx.borrow_mut().ev("net", "read: EOF".to_string());
                    return Ok(0);
                }
            }
            let progressed = self.pump_peer();
            pumped += 1;
            if !progressed || pumped > 64 {
                let again = self.wire.borrow().s2c.len();
                let w = self.wire.borrow();
                if again == 0 && !w.server_fin && !w.server_rst {
                    drop(w);
                    let mut c = self.ctx.borrow_mut();
                    c.ev("net", "SILENCE".to_string());
                    c.probe("silence");
                    return Err(io::Error::new(ErrorKind::TimedOut, "sim: SILENCE (client would block forever)"));
                }
            }
        }
        let cfg = self.cfg.borrow().clone();
        let mut ctx = self.ctx.borrow_mut();
        let mut w = self.wire.borrow_mut();
        // injected end of stream
        if let Some(at) = cfg.read_rst_at {
            if w.delivered >= at {
                ctx.fault("read_rst");
                ctx.ev("net", format!("read: injected RST at {}", w.delivered));
                return Err(io::Error::new(ErrorKind::ConnectionReset, "sim: injected reset"));
            }
        }
        if let Some(at) = cfg.read_eof_at {
            if w.delivered >= at {
                ctx.fault("read_eof");
                ctx.ev("net", format!("read: injected EOF at {}", w.delivered));
                return Ok(0);
            }
        }
        if cfg.eintr_read > 0 && ctx.net_chance("eintr_r", cfg.eintr_read, 16) {
            ctx.fault("eintr_read");
            ctx.shape_op(3, 0);
            return Err(io::Error::new(ErrorKind::Interrupted, "sim: EINTR"));
        }
        let mut n = buf.len().min(w.s2c.len());
        if cfg.respect_segments {
            if let Some(seg) = w.s2c_segs.front() {
                if *seg < n {
                    n = *seg;
                    ctx.fault("segment_boundary");
                }
            }
        }
        let limit = match &cfg.read_mode {
            ReadMode::Whole => n,
            ReadMode::Cap(k) => n.min((*k).max(1)),
            ReadMode::Random => {
                let v = ctx.net_choose("rd", n as u64) as usize;
                if v == 0 { n } else { v }
            }
            ReadMode::AtOffsets(offs) => {
                let pos = w.delivered;
                let mut m = n;
                for o in offs {
                    if *o > pos && *o - pos < m {
                        m = *o - pos;
                    }
                }
                m
            }
        };
        let mut n2 = limit.max(1).min(n);
        if let Some(at) = cfg.read_eof_at.or(cfg.read_rst_at) {
            if w.delivered + n2 > at {
                n2 = at - w.delivered;
            }
        }
        if n2 < buf.len().min(w.s2c.len()) {
            ctx.fault("short_read");
        }
        for i in 0..n2 {
            buf[i] = w.s2c.pop_front().unwrap();
        }
        // segment bookkeeping
        let mut left = n2;
        while left > 0 {
            let front = *w.s2c_segs.front().unwrap();
            if front <= left {
                left -= front;
                w.s2c_segs.pop_front();
            } else {
                *w.s2c_segs.front_mut().unwrap() = front - left;
                left = 0;
            }
        }
        w.delivered += n2;
        ctx.shape_op(1, n2);
        let bl = buf.len();
        ctx.ev_raw("s2c.read", || format!("{} of {} wanted", n2, bl));
        Ok(n2)
    }
}

impl Write for ClientEnd {
    fn write(&mut self, buf: &[u8]) -> io::Result<usize> {
        if !self.ctx.borrow_mut().step() {
            return Err(io::Error::new(ErrorKind::Other, "sim: step budget exhausted"));
        }
        if buf.is_empty() {
            return Ok(0);
        }
        let cfg = self.cfg.borrow().clone();
        let n;
        {
            let mut ctx = self.ctx.borrow_mut();
            let mut w = self.wire.borrow_mut();
            let total = w.c2s_all.len();
            if let Some(at) = cfg.write_fail_at {
                if total >= at {
                    ctx.fault("write_error");
                    if cfg.write_fail_transient {
                        self.cfg.borrow_mut().write_fail_at = None;
                        ctx.fault("write_error_transient");
                    }
                    ctx.ev("net", format!("write: injected {:?} at {}", cfg.write_fail_kind, total));
                    return Err(io::Error::new(cfg.write_fail_kind, "sim: injected write error"));
                }
            }
            if w.server_rst {
                return Err(io::Error::new(ErrorKind::BrokenPipe, "sim: peer reset"));
            }
            if cfg.eintr_write > 0 && ctx.net_chance("eintr_w", cfg.eintr_write, 16) {
                ctx.fault("eintr_write");
                ctx.shape_op(4, 0);
                return Err(io::Error::new(ErrorKind::Interrupted, "sim: EINTR"));
            }
            if cfg.zero_write > 0 && ctx.net_chance("zero_w", cfg.zero_write, 16) {
                ctx.fault("zero_write");
                ctx.shape_op(5, 0);
                return Ok(0);
            }
            let m = match &cfg.write_mode {
                WriteMode::Whole => buf.len(),
                WriteMode::Cap(k) => buf.len().min((*k).max(1)),
                WriteMode::Random => {
                    let v = ctx.net_choose("wr", buf.len() as u64) as usize;
                    if v == 0 { buf.len() } else { v }
                }
                WriteMode::Bursty => {
                    if ctx.net_chance("wr_burst_short", 1, 3) { 1 + ctx.net_choose("wr", buf.len() as u64) as usize } else { buf.len() }
                }
            };
            let mut m = m.min(buf.len());
            if let Some(at) = cfg.write_fail_at {
                if total + m > at {
                    m = at - total;
                }
            }
            if m < buf.len() {
                ctx.fault("short_write");
            }
            let seq = ctx.seq();
            w.c2s_writes.push((seq, total, m));
            w.c2s_all.extend_from_slice(&buf[..m]);
            w.c2s.extend(buf[..m].iter());
            ctx.shape_op(2, m);
            ctx.ev_raw("c2s.write", || format!("{} of {}", m, buf.len()));
            n = m;
        }
        let eager = cfg.eager > 0 && self.ctx.borrow_mut().net_chance("eager", cfg.eager, 16);
        if eager {
            self.pump_peer();
        }
        Ok(n)
    }

    fn flush(&mut self) -> io::Result<()> {
        Ok(())
    }
}

/// Non-blocking end used by the reference server (and handed to the TLS acceptor).
pub struct ServerEnd {
    pub wire: Rc<RefCell<Wire>>,
    pub ctx: Rc<RefCell<Ctx>>,
}

impl Read for ServerEnd {
    fn read(&mut self, buf: &mut [u8]) -> io::Result<usize> {
        let mut w = self.wire.borrow_mut();
        if w.c2s.is_empty() {
            if w.client_fin {
                return Ok(0);
            }
            return Err(io::Error::new(ErrorKind::WouldBlock, "sim: nothing to read yet"));
        }
        let n = buf.len().min(w.c2s.len());
        for i in 0..n {
            buf[i] = w.c2s.pop_front().unwrap();
        }
        Ok(n)
    }
}

impl Write for ServerEnd {
    fn write(&mut self, buf: &[u8]) -> io::Result<usize> {
        let mut w = self.wire.borrow_mut();
        w.push_s2c(buf);
        if let Ok(mut c) = self.ctx.try_borrow_mut() {
            c.ev_raw("s2c.write", || format!("{}", buf.len()));
        }
        Ok(buf.len())
    }
    fn flush(&mut self) -> io::Result<()> {
        Ok(())
    }
}
