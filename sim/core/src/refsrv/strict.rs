//! Strict, independent decoders for everything the client emits (MS-RDPBCGR, T.125, T.124).
//! Every length / count must equal what it describes and nothing may be left over.
//! Errors are short stable keys ("layer/field/problem") used as violation sites by the C04 oracle.

use super::bytes::{PResult, Rd};

#[derive(Clone, Debug, PartialEq)]
pub struct CoreData {
    pub version: u32,
    pub width: u16,
    pub height: u16,
    pub color_depth: u16,
    pub sas: u16,
    pub layout: u32,
    pub build: u32,
    pub name: String,
    pub kbd_type: u32,
    pub kbd_subtype: u32,
    pub kbd_fn: u32,
    pub selected_protocol: Option<u32>,
    pub early_caps: Option<u16>,
    pub block_len: usize,
}

#[derive(Clone, Debug, PartialEq)]
pub struct ConnectInitial {
    pub core: CoreData,
    pub enc_methods: u32,
    pub ext_enc_methods: u32,
    pub channels: Vec<(String, u32)>,
    pub target_params: Vec<u64>,
    pub min_params: Vec<u64>,
    pub max_params: Vec<u64>,
}

#[derive(Clone, Debug, PartialEq)]
pub struct InfoPacket {
    pub code_page: u32,
    pub flags: u32,
    pub domain: String,
    pub user: String,
    pub password: String,
    pub shell: String,
    pub dir: String,
    pub extended: bool,
    pub raw_password: Vec<u8>,
}

thread_local! {
    /// the largest user-data length seen in a send-data request since the last reset (c12/confirm_active_limit measures
    /// the confirm-active PDU with it)
    static LARGEST_SDRQ: std::cell::Cell<usize> = std::cell::Cell::new(0);
}

pub fn reset_largest_send_data_request() {
    LARGEST_SDRQ.with(|c| c.set(0));
}

pub fn largest_send_data_request() -> usize {
    LARGEST_SDRQ.with(|c| c.get())
}

#[derive(Clone, Debug, PartialEq)]
pub struct CapSet {
    pub typ: u16,
    pub data: Vec<u8>,
}

#[derive(Clone, Debug, PartialEq)]
pub struct ConfirmActive {
    pub share_id: u32,
    pub originator: u16,
    pub source: Vec<u8>,
    pub caps: Vec<CapSet>,
}

#[derive(Clone, Debug, PartialEq)]
pub enum InputEvent {
    Mouse { flags: u16, x: u16, y: u16 },
    Scancode { flags: u16, code: u16 },
    Other { typ: u16, data: Vec<u8> },
}

#[derive(Clone, Debug, PartialEq)]
pub enum DataPdu {
    Synchronize { target_user: u16 },
    Control { action: u16, grant_id: u16, control_id: u32 },
    FontList { number: u16, total: u16, flags: u16, entry_size: u16 },
    Input { events: Vec<(u32, InputEvent)> },
    Other { typ2: u8, payload: Vec<u8> },
}

impl DataPdu {
    /// client-to-server data PDUs that are legal at any time in an active session and that none of the properties
    /// speaks about: Refresh Rect (0x21), Suppress Output (0x23), Shutdown Request (0x24), Persistent Key List (0x2b)
    pub fn is_unrelated_legal(&self) -> bool {
        match self {
            DataPdu::Other { typ2, .. } => [0x21u8, 0x23, 0x24, 0x2b].contains(typ2),
            // an input PDU made of TS_SYNC_EVENTs only (toggle-key state, sent by clients when a session becomes active)
            DataPdu::Input { events } => !events.is_empty() && events.iter().all(|(_, e)| matches!(e, InputEvent::Other { typ, .. } if *typ == 0)),
            _ => false,
        }
    }
}

#[derive(Clone, Debug, PartialEq)]
pub enum SharePdu {
    ConfirmActive(ConfirmActive),
    Data { share_id: u32, stream_id: u8, pdu: DataPdu },
}

#[derive(Clone, Debug, PartialEq)]
pub enum ClientMsg {
    ConnectionRequest { flags: u8, protocols: u32, has_neg: bool },
    ConnectInitial(Box<ConnectInitial>),
    ErectDomain { sub_height: u64, sub_interval: u64 },
    AttachUser,
    ChannelJoin { initiator: u16, channel: u16 },
    /// send-data request carrying the Client Info PDU
    Info { initiator: u16, channel: u16, info: Box<InfoPacket> },
    Share { initiator: u16, channel: u16, source: u16, pdu: SharePdu },
    DisconnectUltimatum { reason: u8 },
}

impl ClientMsg {
    pub fn name(&self) -> String {
        match self {
            ClientMsg::ConnectionRequest { .. } => "connection-request".into(),
            ClientMsg::ConnectInitial(_) => "connect-initial".into(),
            ClientMsg::ErectDomain { .. } => "erect-domain".into(),
            ClientMsg::AttachUser => "attach-user".into(),
            ClientMsg::ChannelJoin { channel, .. } => format!("channel-join({})", channel),
            ClientMsg::Info { .. } => "client-info".into(),
            ClientMsg::Share { pdu, .. } => match pdu {
                SharePdu::ConfirmActive(_) => "confirm-active".into(),
                SharePdu::Data { pdu, .. } => match pdu {
                    DataPdu::Synchronize { .. } => "synchronize".into(),
                    DataPdu::Control { action, .. } => format!("control({})", action),
                    DataPdu::FontList { .. } => "font-list".into(),
                    DataPdu::Input { events } => format!("input({})", events.len()),
                    DataPdu::Other { typ2, .. } => format!("data-pdu({:#x})", typ2),
                },
            },
            ClientMsg::DisconnectUltimatum { .. } => "disconnect-provider-ultimatum".into(),
        }
    }
}

/// If `buf` starts with a complete TPKT frame, return its total length.
pub fn tpkt_complete(buf: &[u8]) -> PResult<Option<usize>> {
    if buf.is_empty() {
        return Ok(None);
    }
    if buf[0] != 3 {
        return Err(format!("tpkt/version/{:#x}", buf[0]));
    }
    if buf.len() < 4 {
        return Ok(None);
    }
    let len = u16::from_be_bytes([buf[2], buf[3]]) as usize;
    if len < 4 {
        return Err("tpkt/length/below-header".into());
    }
    if buf.len() < len {
        return Ok(None);
    }
    Ok(Some(len))
}

fn utf16_to_string(b: &[u8], what: &str) -> PResult<String> {
    if b.len() % 2 != 0 {
        return Err(format!("{}/odd-utf16-length", what));
    }
    let units: Vec<u16> = b.chunks(2).map(|c| u16::from_le_bytes([c[0], c[1]])).collect();
    String::from_utf16(&units).map_err(|_| format!("{}/invalid-utf16", what))
}

/// one complete TPKT frame from the client -> typed message
pub fn decode_frame(frame: &[u8], expect_info: bool) -> PResult<ClientMsg> {
    let mut r = Rd::new(frame, "tpkt");
    let v = r.u8("version")?;
    if v != 3 {
        return Err("tpkt/version".into());
    }
    let res = r.u8("reserved")?;
    if res != 0 {
        return Err("tpkt/reserved/nonzero".into());
    }
    let len = r.u16be("length")? as usize;
    if len != frame.len() {
        return Err("tpkt/length/mismatch".into());
    }
    // X.224
    let li = r.u8("x224-li")? as usize;
    let code = r.u8("x224-code")?;
    match code {
        0xE0 => {
            if li != frame.len() - 5 {
                return Err("x224/cr/li-mismatch".into());
            }
            let dst = r.u16be("dst-ref")?;
            let _src = r.u16be("src-ref")?;
            let class = r.u8("class")?;
            if dst != 0 {
                return Err("x224/cr/dst-ref-nonzero".into());
            }
            if class != 0 {
                return Err("x224/cr/class-nonzero".into());
            }
            // optional routing token / cookie terminated by CRLF
            let rest = &frame[r.pos..];
            let mut off = 0;
            if (rest.len() > 8 && rest[0] != 1) || (!rest.is_empty() && rest.len() < 8) {
                if let Some(p) = rest.windows(2).position(|w| w == b"\r\n") {
                    off = p + 2;
                }
            }
            let neg = &rest[off..];
            if neg.is_empty() {
                return Ok(ClientMsg::ConnectionRequest { flags: 0, protocols: 0, has_neg: false });
            }
            let mut n = Rd::new(neg, "x224/negreq");
            let t = n.u8("type")?;
            let flags = n.u8("flags")?;
            let l = n.u16le("length")?;
            let protocols = n.u32le("requestedProtocols")?;
            if t != 1 {
                return Err("x224/negreq/type".into());
            }
            if l != 8 {
                return Err("x224/negreq/length".into());
            }
            if flags & !0x0b != 0 {
                return Err("x224/negreq/flags/undefined-bits".into());
            }
            if flags & 0x08 != 0 {
                // RDP_NEG_CORRELATION_INFO (MS-RDPBCGR 2.2.1.1.2)
                let ct = n.u8("correlation.type")?;
                let cf = n.u8("correlation.flags")?;
                let cl = n.u16le("correlation.length")?;
                let id = n.take(16, "correlation.id")?;
                let reserved = n.take(16, "correlation.reserved")?;
                if ct != 6 || cf != 0 || cl != 0x24 {
                    return Err("x224/correlation/header".into());
                }
                if id[0] == 0 || id[0] == 0xf4 || id.iter().any(|b| *b == 0x0d) {
                    return Err("x224/correlation/id".into());
                }
                if reserved.iter().any(|b| *b != 0) {
                    return Err("x224/correlation/reserved".into());
                }
            }
            n.end("tail")?;
            Ok(ClientMsg::ConnectionRequest { flags, protocols, has_neg: true })
        }
        0xF0 => {
            if li != 2 {
                return Err("x224/data/li".into());
            }
            let eot = r.u8("eot")?;
            if eot != 0x80 {
                return Err("x224/data/eot".into());
            }
            decode_mcs(&frame[r.pos..], expect_info)
        }
        _ => Err(format!("x224/code/{:#x}", code)),
    }
}

// ---------------------------------------------------------------- BER (T.125 connect-initial)

fn ber_tlv<'a>(r: &mut Rd<'a>, what: &str) -> PResult<(u32, &'a [u8])> {
    let mut tag = r.u8(what)? as u32;
    if tag & 0x1f == 0x1f {
        // high tag number form (one more octet is all T.125 needs)
        let t2 = r.u8(what)?;
        if t2 & 0x80 != 0 {
            return Err(format!("ber/{}/long-tag", what));
        }
        tag = (tag << 8) | t2 as u32;
    }
    let l0 = r.u8(what)?;
    let len = if l0 & 0x80 == 0 {
        l0 as usize
    } else {
        let n = (l0 & 0x7f) as usize;
        if n == 0 {
            return Err(format!("ber/{}/indefinite-length", what));
        }
        if n > 4 {
            return Err(format!("ber/{}/length-too-wide", what));
        }
        let mut v = 0usize;
        for _ in 0..n {
            v = (v << 8) | r.u8(what)? as usize;
        }
        v
    };
    let val = r.take(len, what).map_err(|_| format!("ber/{}/length-exceeds-data", what))?;
    Ok((tag, val))
}

fn ber_uint(v: &[u8], what: &str) -> PResult<u64> {
    if v.is_empty() || v.len() > 8 {
        return Err(format!("ber/{}/integer-size", what));
    }
    if v[0] & 0x80 != 0 {
        return Err(format!("ber/{}/negative-integer", what));
    }
    let mut x = 0u64;
    for b in v {
        x = (x << 8) | *b as u64;
    }
    Ok(x)
}

fn domain_params(v: &[u8], what: &'static str) -> PResult<Vec<u64>> {
    let mut r = Rd::new(v, what);
    let mut out = Vec::new();
    for _ in 0..8 {
        let (t, val) = ber_tlv(&mut r, what)?;
        if t != 0x02 {
            return Err(format!("ber/{}/expected-integer", what));
        }
        out.push(ber_uint(val, what)?);
    }
    r.end("domain-parameters")?;
    Ok(out)
}

fn decode_connect_initial(data: &[u8]) -> PResult<ClientMsg> {
    let mut r = Rd::new(data, "mcs/connect-initial");
    let (tag, body) = ber_tlv(&mut r, "connect-initial")?;
    if tag != 0x7f65 {
        return Err("mcs/connect-initial/tag".into());
    }
    r.end("after-connect-initial")?;
    let mut b = Rd::new(body, "mcs/connect-initial");
    let (t, calling) = ber_tlv(&mut b, "callingDomainSelector")?;
    if t != 0x04 || calling.is_empty() {
        return Err("mcs/connect-initial/callingDomainSelector".into());
    }
    let (t, called) = ber_tlv(&mut b, "calledDomainSelector")?;
    if t != 0x04 || called.is_empty() {
        return Err("mcs/connect-initial/calledDomainSelector".into());
    }
    let (t, up) = ber_tlv(&mut b, "upwardFlag")?;
    if t != 0x01 || up.len() != 1 {
        return Err("mcs/connect-initial/upwardFlag".into());
    }
    let (t, tp) = ber_tlv(&mut b, "targetParameters")?;
    if t != 0x30 {
        return Err("mcs/connect-initial/targetParameters/tag".into());
    }
    let (t, mn) = ber_tlv(&mut b, "minimumParameters")?;
    if t != 0x30 {
        return Err("mcs/connect-initial/minimumParameters/tag".into());
    }
    let (t, mx) = ber_tlv(&mut b, "maximumParameters")?;
    if t != 0x30 {
        return Err("mcs/connect-initial/maximumParameters/tag".into());
    }
    let (t, ud) = ber_tlv(&mut b, "userData")?;
    if t != 0x04 {
        return Err("mcs/connect-initial/userData/tag".into());
    }
    b.end("after-userData")?;
    let target_params = domain_params(tp, "mcs/targetParameters")?;
    let min_params = domain_params(mn, "mcs/minimumParameters")?;
    let max_params = domain_params(mx, "mcs/maximumParameters")?;
    // GCC conference create request (T.124, PER)
    let mut g = Rd::new(ud, "gcc/ccrq");
    let key = g.take(7, "t124-key")?;
    if key != [0x00, 0x05, 0x00, 0x14, 0x7c, 0x00, 0x01] {
        return Err("gcc/ccrq/t124-identifier".into());
    }
    let l1 = g.per_len("connectPDU-length")?;
    if l1 != g.left() {
        return Err("gcc/ccrq/connectPDU-length/mismatch".into());
    }
    let fixed = g.take(8, "ccrq-fixed")?;
    if fixed != [0x00, 0x08, 0x00, 0x10, 0x00, 0x01, 0xc0, 0x00] {
        return Err("gcc/ccrq/fixed-part".into());
    }
    let h221 = g.take(4, "h221-key")?;
    if h221 != b"Duca" {
        return Err("gcc/ccrq/h221-key".into());
    }
    let l2 = g.per_len("userData-length")?;
    if l2 != g.left() {
        return Err("gcc/ccrq/userData-length/mismatch".into());
    }
    let blocks = g.rest();
    let mut core: Option<CoreData> = None;
    let mut sec: Option<(u32, u32)> = None;
    let mut net: Option<Vec<(String, u32)>> = None;
    let mut br = Rd::new(blocks, "gcc/blocks");
    while br.left() > 0 {
        let typ = br.u16le("block-type")?;
        let blen = br.u16le("block-length")? as usize;
        if blen < 4 {
            return Err("gcc/block/length-below-header".into());
        }
        let body = br.take(blen - 4, "block-body").map_err(|_| "gcc/block/length-exceeds-data".to_string())?;
        match typ {
            0xC001 => {
                if core.is_some() {
                    return Err("gcc/cs-core/duplicate".into());
                }
                core = Some(decode_core(body, blen)?);
            }
            0xC002 => {
                let mut s = Rd::new(body, "gcc/cs-security");
                let a = s.u32le("encryptionMethods")?;
                let b2 = s.u32le("extEncryptionMethods")?;
                s.end("tail")?;
                sec = Some((a, b2));
            }
            0xC003 => {
                let mut s = Rd::new(body, "gcc/cs-net");
                let count = s.u32le("channelCount")? as usize;
                if count > 31 {
                    return Err("gcc/cs-net/channelCount/too-many".into());
                }
                let mut chans = Vec::new();
                for _ in 0..count {
                    let name = s.take(8, "channel-name")?;
                    let opt = s.u32le("channel-options")?;
                    let end = name.iter().position(|c| *c == 0).ok_or("gcc/cs-net/channel-name/unterminated".to_string())?;
                    chans.push((String::from_utf8_lossy(&name[..end]).to_string(), opt));
                }
                s.end("tail")?;
                net = Some(chans);
            }
            0xC004 | 0xC005 | 0xC006 | 0xC008 | 0xC00A => {}
            _ => return Err(format!("gcc/block/unknown-type-{:#x}", typ)),
        }
    }
    let core = core.ok_or("gcc/cs-core/missing".to_string())?;
    let (enc_methods, ext_enc_methods) = sec.ok_or("gcc/cs-security/missing".to_string())?;
    Ok(ClientMsg::ConnectInitial(Box::new(ConnectInitial { core, enc_methods, ext_enc_methods, channels: net.unwrap_or_default(), target_params, min_params, max_params })))
}

fn decode_core(body: &[u8], blen: usize) -> PResult<CoreData> {
    // the optional tail may stop after any complete optional field
    const STOPS: [usize; 13] = [128, 130, 132, 136, 138, 140, 142, 206, 207, 208, 212, 216, 218];
    let mut s = Rd::new(body, "gcc/cs-core");
    if body.len() < 128 {
        return Err("gcc/cs-core/length/below-mandatory-part".into());
    }
    let version = s.u32le("version")?;
    let width = s.u16le("desktopWidth")?;
    let height = s.u16le("desktopHeight")?;
    let color_depth = s.u16le("colorDepth")?;
    let sas = s.u16le("SASSequence")?;
    let layout = s.u32le("keyboardLayout")?;
    let build = s.u32le("clientBuild")?;
    let name_raw = s.take(32, "clientName")?;
    let kbd_type = s.u32le("keyboardType")?;
    let kbd_subtype = s.u32le("keyboardSubType")?;
    let kbd_fn = s.u32le("keyboardFunctionKey")?;
    let _ime = s.take(64, "imeFileName")?;
    if !STOPS.contains(&body.len()) && body.len() < 218 {
        return Err(format!("gcc/cs-core/length/{}-is-not-a-field-boundary", body.len()));
    }
    // clientName: up to 15 UTF-16 characters plus a mandatory null terminator, in a 32-byte field
    let units: Vec<u16> = name_raw.chunks(2).map(|c| u16::from_le_bytes([c[0], c[1]])).collect();
    let term = units.iter().position(|u| *u == 0).ok_or("gcc/cs-core/clientName/unterminated".to_string())?;
    let name = String::from_utf16(&units[..term]).map_err(|_| "gcc/cs-core/clientName/invalid-utf16".to_string())?;
    let mut selected_protocol = None;
    let mut early_caps = None;
    if s.left() >= 2 {
        let _post_beta2 = s.u16le("postBeta2ColorDepth")?;
    }
    if s.left() >= 2 {
        let _product = s.u16le("clientProductId")?;
    }
    if s.left() >= 4 {
        let _serial = s.u32le("serialNumber")?;
    }
    if s.left() >= 2 {
        let _high = s.u16le("highColorDepth")?;
    }
    if s.left() >= 2 {
        let _supp = s.u16le("supportedColorDepths")?;
    }
    if s.left() >= 2 {
        early_caps = Some(s.u16le("earlyCapabilityFlags")?);
    }
    if s.left() >= 64 {
        let _dig = s.take(64, "clientDigProductId")?;
    }
    if s.left() >= 1 {
        let _ct = s.u8("connectionType")?;
    }
    if s.left() >= 1 {
        let _pad = s.u8("pad1octet")?;
    }
    if s.left() >= 4 {
        selected_protocol = Some(s.u32le("serverSelectedProtocol")?);
    }
    Ok(CoreData { version, width, height, color_depth, sas, layout, build, name, kbd_type, kbd_subtype, kbd_fn, selected_protocol, early_caps, block_len: blen })
}

// ---------------------------------------------------------------- MCS domain PDUs (PER)

fn per_integer(r: &mut Rd, what: &str) -> PResult<u64> {
    // unconstrained / semi-constrained INTEGER: length octet then big-endian value
    let n = r.u8(what)? as usize;
    if n == 0 || n > 4 {
        return Err(format!("mcs/{}/integer-length", what));
    }
    let v = r.take(n, what)?;
    let mut x = 0u64;
    for b in v {
        x = (x << 8) | *b as u64;
    }
    Ok(x)
}

pub fn decode_mcs(data: &[u8], expect_info: bool) -> PResult<ClientMsg> {
    if data.is_empty() {
        return Err("mcs/empty".into());
    }
    if data[0] == 0x7f {
        return decode_connect_initial(data);
    }
    let mut r = Rd::new(data, "mcs");
    let b0 = r.u8("choice")?;
    match b0 >> 2 {
        1 => {
            let sub_height = per_integer(&mut r, "erect-domain/subHeight")?;
            let sub_interval = per_integer(&mut r, "erect-domain/subInterval")?;
            r.end("erect-domain/tail")?;
            Ok(ClientMsg::ErectDomain { sub_height, sub_interval })
        }
        10 => {
            r.end("attach-user/tail")?;
            Ok(ClientMsg::AttachUser)
        }
        14 => {
            let initiator = r.u16be("channel-join/initiator")?;
            let channel = r.u16be("channel-join/channelId")?;
            r.end("channel-join/tail")?;
            Ok(ClientMsg::ChannelJoin { initiator: initiator.wrapping_add(1001), channel })
        }
        8 => {
            // DisconnectProviderUltimatum: 6 bits choice, 3 bits reason, 7 bits padding
            let b1 = r.u8("dpu/reason")?;
            let reason = ((b0 & 0x3) << 1) | (b1 >> 7);
            if b1 & 0x7f != 0 {
                return Err("mcs/dpu/padding-bits".into());
            }
            r.end("dpu/trailing")?;
            Ok(ClientMsg::DisconnectUltimatum { reason })
        }
        25 => {
            let initiator = r.u16be("sdrq/initiator")?.wrapping_add(1001);
            let channel = r.u16be("sdrq/channelId")?;
            let prio = r.u8("sdrq/priority-segmentation")?;
            if prio & 0x30 != 0x30 {
                return Err("mcs/sdrq/segmentation".into());
            }
            let len = r.per_len("sdrq/length")?;
            if len != r.left() {
                return Err("mcs/sdrq/length/mismatch".into());
            }
            LARGEST_SDRQ.with(|c| c.set(c.get().max(len)));
            let payload = r.rest();
            decode_channel_payload(initiator, channel, payload, expect_info)
        }
        other => Err(format!("mcs/choice/{}", other)),
    }
}

fn decode_channel_payload(initiator: u16, channel: u16, p: &[u8], expect_info: bool) -> PResult<ClientMsg> {
    // under TLS a security header is present only on the Client Info PDU, which is the first
    // send-data request of a connection (the server tracks that)
    if expect_info {
        let mut r = Rd::new(p, "sec");
        let flags = r.u16le("flags")?;
        let hi = r.u16le("flagsHi")?;
        if flags != 0x0040 {
            return Err(format!("sec/info/flags-{:#x}", flags));
        }
        if hi != 0 {
            return Err("sec/info/flagsHi".into());
        }
        let info = decode_info(&p[4..])?;
        return Ok(ClientMsg::Info { initiator, channel, info: Box::new(info) });
    }
    let (source, pdu) = decode_share(p)?;
    Ok(ClientMsg::Share { initiator, channel, source, pdu })
}

fn decode_info(p: &[u8]) -> PResult<InfoPacket> {
    let mut r = Rd::new(p, "info");
    let code_page = r.u32le("codePage")?;
    let flags = r.u32le("flags")?;
    let cb_domain = r.u16le("cbDomain")? as usize;
    let cb_user = r.u16le("cbUserName")? as usize;
    let cb_pass = r.u16le("cbPassword")? as usize;
    let cb_shell = r.u16le("cbAlternateShell")? as usize;
    let cb_dir = r.u16le("cbWorkingDir")? as usize;
    let unicode = flags & 0x10 != 0;
    let term = if unicode { 2 } else { 1 };
    let mut strs: Vec<String> = Vec::new();
    let mut raw_password = Vec::new();
    for (i, (cb, nm)) in [(cb_domain, "domain"), (cb_user, "userName"), (cb_pass, "password"), (cb_shell, "alternateShell"), (cb_dir, "workingDir")].iter().enumerate() {
        let data = r.take(*cb, nm).map_err(|_| format!("info/{}/cb-exceeds-data", nm))?;
        let t = r.take(term, nm).map_err(|_| format!("info/{}/terminator-missing", nm))?;
        if t.iter().any(|b| *b != 0) {
            return Err(format!("info/{}/terminator-not-null", nm));
        }
        if i == 2 {
            raw_password = data.to_vec();
        }
        let s = if unicode { utf16_to_string(data, &format!("info/{}", nm))? } else { String::from_utf8_lossy(data).to_string() };
        if s.contains('\0') {
            return Err(format!("info/{}/embedded-null", nm));
        }
        strs.push(s);
    }
    let mut extended = false;
    if r.left() > 0 {
        extended = true;
        let _family = r.u16le("clientAddressFamily")?;
        let cb_addr = r.u16le("cbClientAddress")? as usize;
        if cb_addr < term {
            return Err("info/cbClientAddress/excludes-mandatory-terminator".into());
        }
        let addr = r.take(cb_addr, "clientAddress").map_err(|_| "info/clientAddress/cb-exceeds-data".to_string())?;
        if addr[cb_addr - term..].iter().any(|b| *b != 0) {
            return Err("info/clientAddress/unterminated".into());
        }
        let cb_cdir = r.u16le("cbClientDir")? as usize;
        if cb_cdir < term {
            return Err("info/cbClientDir/excludes-mandatory-terminator".into());
        }
        let cdir = r.take(cb_cdir, "clientDir").map_err(|_| "info/clientDir/cb-exceeds-data".to_string())?;
        if cdir[cb_cdir - term..].iter().any(|b| *b != 0) {
            return Err("info/clientDir/unterminated".into());
        }
        // everything after clientDir is optional, but in whole fields
        if r.left() > 0 {
            r.take(172, "clientTimeZone")?;
        }
        if r.left() > 0 {
            r.u32le("clientSessionId")?;
        }
        if r.left() > 0 {
            r.u32le("performanceFlags")?;
        }
        if r.left() > 0 {
            let cb = r.u16le("cbAutoReconnectCookie")? as usize;
            r.take(cb, "autoReconnectCookie")?;
        }
        if r.left() > 0 {
            r.u16le("reserved1")?;
        }
        if r.left() > 0 {
            r.u16le("reserved2")?;
        }
    }
    r.end("tail")?;
    Ok(InfoPacket { code_page, flags, domain: strs[0].clone(), user: strs[1].clone(), password: strs[2].clone(), shell: strs[3].clone(), dir: strs[4].clone(), extended, raw_password })
}

fn cap_fixed_len(typ: u16) -> Option<&'static [usize]> {
    Some(match typ {
        0x01 => &[24],
        0x02 => &[28],
        0x03 => &[88],
        0x04 => &[40],
        0x05 => &[12],
        0x07 => &[12],
        0x08 => &[8, 10],
        0x09 => &[8],
        0x0A => &[8],
        0x0C => &[8],
        0x0D => &[88],
        0x0E => &[4, 8],
        0x0F => &[8],
        0x10 => &[52],
        0x11 => &[12],
        0x13 => &[40],
        0x14 => &[8, 12],
        0x1A => &[8],
        0x1B => &[6],
        0x1C => &[12],
        0x1E => &[8],
        _ => return None,
    })
}

pub fn decode_share(p: &[u8]) -> PResult<(u16, SharePdu)> {
    let mut r = Rd::new(p, "share-control");
    let total = r.u16le("totalLength")? as usize;
    if total != p.len() {
        return Err("share-control/totalLength/mismatch".into());
    }
    let typ = r.u16le("pduType")?;
    if typ & 0xfff0 != 0x0010 {
        return Err("share-control/pduType/version".into());
    }
    let source = r.u16le("PDUSource")?;
    match typ & 0xf {
        0x3 => {
            let share_id = r.u32le("shareId")?;
            let originator = r.u16le("originatorId")?;
            let len_src = r.u16le("lengthSourceDescriptor")? as usize;
            let len_caps = r.u16le("lengthCombinedCapabilities")? as usize;
            let src = r.take(len_src, "sourceDescriptor").map_err(|_| "confirm-active/lengthSourceDescriptor/exceeds-data".to_string())?;
            if len_caps != r.left() {
                return Err("confirm-active/lengthCombinedCapabilities/mismatch".into());
            }
            let ncaps = r.u16le("numberCapabilities")? as usize;
            let _pad = r.u16le("pad2Octets")?;
            let mut caps = Vec::new();
            while r.left() > 0 {
                let ctype = r.u16le("capabilitySetType")?;
                let clen = r.u16le("lengthCapability")? as usize;
                if clen < 4 {
                    return Err("confirm-active/lengthCapability/below-header".into());
                }
                let data = r.take(clen - 4, "capabilityData").map_err(|_| "confirm-active/lengthCapability/exceeds-data".to_string())?;
                if let Some(ok) = cap_fixed_len(ctype) {
                    if !ok.contains(&clen) {
                        return Err(format!("confirm-active/capability-{:#x}/length-{}", ctype, clen));
                    }
                }
                caps.push(CapSet { typ: ctype, data: data.to_vec() });
            }
            if ncaps != caps.len() {
                return Err("confirm-active/numberCapabilities/mismatch".into());
            }
            if originator != 0x03EA {
                return Err("confirm-active/originatorId".into());
            }
            Ok((source, SharePdu::ConfirmActive(ConfirmActive { share_id, originator, source: src.to_vec(), caps })))
        }
        0x7 => {
            let share_id = r.u32le("shareId")?;
            let _pad = r.u8("pad1")?;
            let stream_id = r.u8("streamId")?;
            let ulen = r.u16le("uncompressedLength")? as usize;
            let typ2 = r.u8("pduType2")?;
            let ctype = r.u8("compressedType")?;
            let clen = r.u16le("compressedLength")?;
            let payload = r.rest();
            if ctype != 0 || clen != 0 {
                return Err("share-data/compression-fields".into());
            }
            // Microsoft's own implementations disagree: mstsc counts from pduType2 on, servers use totalLength
            if ulen != payload.len() + 4 && ulen != payload.len() + 18 {
                return Err("share-data/uncompressedLength/mismatch".into());
            }
            if !(1..=4).contains(&stream_id) {
                return Err("share-data/streamId".into());
            }
            let mut d = Rd::new(payload, "data-pdu");
            let pdu = match typ2 {
                0x1F => {
                    let mt = d.u16le("messageType")?;
                    let target_user = d.u16le("targetUser")?;
                    d.end("synchronize/tail")?;
                    if mt != 1 {
                        return Err("synchronize/messageType".into());
                    }
                    DataPdu::Synchronize { target_user }
                }
                0x14 => {
                    let action = d.u16le("action")?;
                    let grant_id = d.u16le("grantId")?;
                    let control_id = d.u32le("controlId")?;
                    d.end("control/tail")?;
                    DataPdu::Control { action, grant_id, control_id }
                }
                0x27 => {
                    let number = d.u16le("numberFonts")?;
                    let total = d.u16le("totalNumFonts")?;
                    let flags = d.u16le("listFlags")?;
                    let entry_size = d.u16le("entrySize")?;
                    d.end("font-list/tail")?;
                    DataPdu::FontList { number, total, flags, entry_size }
                }
                0x1C => {
                    let n = d.u16le("numEvents")? as usize;
                    let _pad = d.u16le("pad2Octets")?;
                    let mut events = Vec::new();
                    while d.left() > 0 {
                        let time = d.u32le("eventTime")?;
                        let mt = d.u16le("messageType")?;
                        let ev = match mt {
                            0x8001 | 0x8002 => {
                                let flags = d.u16le("pointerFlags")?;
                                let x = d.u16le("xPos")?;
                                let y = d.u16le("yPos")?;
                                if mt == 0x8001 { InputEvent::Mouse { flags, x, y } } else { InputEvent::Other { typ: mt, data: vec![] } }
                            }
                            0x0004 => {
                                let flags = d.u16le("keyboardFlags")?;
                                let code = d.u16le("keyCode")?;
                                let _pad = d.u16le("pad2Octets")?;
                                InputEvent::Scancode { flags, code }
                            }
                            0x0000 | 0x0005 | 0x0002 => {
                                let data = d.take(6, "slowPathInputData")?;
                                InputEvent::Other { typ: mt, data: data.to_vec() }
                            }
                            _ => return Err(format!("input/messageType/{:#x}", mt)),
                        };
                        events.push((time, ev));
                    }
                    if n != events.len() {
                        return Err("input/numEvents/mismatch".into());
                    }
                    DataPdu::Input { events }
                }
                _ => DataPdu::Other { typ2, payload: payload.to_vec() },
            };
            Ok((source, SharePdu::Data { share_id, stream_id, pdu }))
        }
        other => Err(format!("share-control/pduType/{:#x}", other)),
    }
}

// ---------------------------------------------------------------- lenient classification
// Used only so that a conversation can go on (and be judged by the *sequence* oracle of C03)
// when the strict decoder -- the C04 oracle -- has rejected a message.

pub fn classify_lenient(frame: &[u8], expect_info: bool) -> Option<ClientMsg> {
    if frame.len() < 7 || frame[0] != 3 {
        return None;
    }
    match frame[5] {
        0xE0 => {
            let n = frame.len();
            if n >= 19 && frame[n - 8] == 1 {
                let protocols = u32::from_le_bytes([frame[n - 4], frame[n - 3], frame[n - 2], frame[n - 1]]);
                return Some(ClientMsg::ConnectionRequest { flags: frame[n - 7], protocols, has_neg: true });
            }
            Some(ClientMsg::ConnectionRequest { flags: 0, protocols: 0, has_neg: false })
        }
        0xF0 => {
            let d = &frame[7..];
            if d.is_empty() {
                return None;
            }
            if d[0] == 0x7f {
                let core = CoreData { version: 0, width: 0, height: 0, color_depth: 0, sas: 0, layout: 0, build: 0, name: String::new(), kbd_type: 0, kbd_subtype: 0, kbd_fn: 0, selected_protocol: None, early_caps: None, block_len: 0 };
                return Some(ClientMsg::ConnectInitial(Box::new(ConnectInitial { core, enc_methods: 0, ext_enc_methods: 0, channels: vec![], target_params: vec![], min_params: vec![], max_params: vec![] })));
            }
            match d[0] >> 2 {
                1 => Some(ClientMsg::ErectDomain { sub_height: 0, sub_interval: 0 }),
                10 => Some(ClientMsg::AttachUser),
                14 if d.len() >= 5 => Some(ClientMsg::ChannelJoin { initiator: u16::from_be_bytes([d[1], d[2]]).wrapping_add(1001), channel: u16::from_be_bytes([d[3], d[4]]) }),
                8 => Some(ClientMsg::DisconnectUltimatum { reason: 0 }),
                25 if d.len() >= 7 => {
                    let initiator = u16::from_be_bytes([d[1], d[2]]).wrapping_add(1001);
                    let channel = u16::from_be_bytes([d[3], d[4]]);
                    let off = if d[6] & 0x80 != 0 { 8 } else { 7 };
                    if d.len() < off {
                        return None;
                    }
                    let p = &d[off..];
                    if expect_info {
                        let flags = if p.len() >= 12 { u32::from_le_bytes([p[8], p[9], p[10], p[11]]) } else { 0 };
                        let info = InfoPacket { code_page: 0, flags, domain: String::new(), user: String::new(), password: String::new(), shell: String::new(), dir: String::new(), extended: false, raw_password: vec![] };
                        return Some(ClientMsg::Info { initiator, channel, info: Box::new(info) });
                    }
                    if p.len() < 6 {
                        return None;
                    }
                    let typ = u16::from_le_bytes([p[2], p[3]]) & 0xf;
                    let source = u16::from_le_bytes([p[4], p[5]]);
                    let share_id = if p.len() >= 10 { u32::from_le_bytes([p[6], p[7], p[8], p[9]]) } else { 0 };
                    match typ {
                        3 => Some(ClientMsg::Share { initiator, channel, source, pdu: SharePdu::ConfirmActive(ConfirmActive { share_id, originator: 0, source: vec![], caps: vec![] }) }),
                        7 if p.len() >= 18 => {
                            let typ2 = p[14];
                            let payload = p[18..].to_vec();
                            let pdu = match typ2 {
                                0x1F => DataPdu::Synchronize { target_user: if payload.len() >= 4 { u16::from_le_bytes([payload[2], payload[3]]) } else { 0 } },
                                0x14 => DataPdu::Control { action: if payload.len() >= 2 { u16::from_le_bytes([payload[0], payload[1]]) } else { 0 }, grant_id: 0, control_id: 0 },
                                0x27 => DataPdu::FontList { number: 0, total: 0, flags: 0, entry_size: 0 },
                                0x1C => DataPdu::Input { events: vec![] },
                                _ => DataPdu::Other { typ2, payload },
                            };
                            Some(ClientMsg::Share { initiator, channel, source, pdu: SharePdu::Data { share_id, stream_id: p[11], pdu } })
                        }
                        _ => None,
                    }
                }
                _ => None,
            }
        }
        _ => None,
    }
}
