//! Glue: one simulated connection = wire + scheduler context + reference server + client end.

use super::build::ServerParams;
use super::server::Server;
use crate::harness::SharedCtx;
use crate::wire::{ClientEnd, NetCfg, Pump, Wire};
use std::cell::RefCell;
use std::rc::Rc;

pub struct World {
    pub ctx: SharedCtx,
    pub wire: Rc<RefCell<Wire>>,
    pub cfg: Rc<RefCell<NetCfg>>,
    pub server: Rc<RefCell<Server>>,
}

impl World {
    pub fn new(ctx: SharedCtx, params: ServerParams, cfg: NetCfg) -> World {
        let wire = Rc::new(RefCell::new(Wire::new()));
        let server = Rc::new(RefCell::new(Server::new(wire.clone(), ctx.clone(), params)));
        World { ctx, wire, cfg: Rc::new(RefCell::new(cfg)), server }
    }

    pub fn client_end(&self) -> ClientEnd {
        ClientEnd::new(self.wire.clone(), self.ctx.clone(), self.cfg.clone(), Some(self.server.clone() as Rc<RefCell<dyn Pump>>))
    }

    /// let the server run outside of a client read (driver operation)
    pub fn pump(&self) -> bool {
        self.server.borrow_mut().pump()
    }

    /// flush what the driver queued on the server
    pub fn flush(&self) {
        let _h = crate::harness::HarnessRegion::enter();
        self.server.borrow_mut().flush();
    }
}
