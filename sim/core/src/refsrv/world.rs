//! Glue: one simulated connection = wire + scheduler context + reference server + client end.

use super::build::ServerParams;
use super::server::Server;
use crate::harness::SharedCtx;
use crate::wire::{ClientEnd, NetCfg, Pump, Wire};
use std::cell::RefCell;
use std::rc::Rc;

pub struct World {
    pub ctx: SharedCtx,
    pub wire: Rc<RefCell<Wire>>,
    pub cfg: Rc<RefCell<NetCfg>>,
    pub server: Rc<RefCell<Server>>,
}

impl World {
    pub fn new(ctx: SharedCtx, params: ServerParams, cfg: NetCfg) -> World {
        // An ECDSA signature is 70..72 bytes long at OpenSSL's whim, so with the EC fixture the raw size of the
        // server's handshake flight varies from run to run. Transport modes that draw from the tape once per
        // read/write would then consume a varying number of choices: with that certificate only draw-free
        // modes are used (every other fixture is RSA: constant sizes, exactly repeatable).
        let mut cfg = cfg;
        if super::server::FIXTURES[params.cert % super::server::FIXTURES.len()].starts_with("ec") {
            use crate::wire::{ReadMode, WriteMode};
            if cfg.read_mode == ReadMode::Random { cfg.read_mode = ReadMode::Cap(3); }
            if cfg.write_mode == WriteMode::Random || cfg.write_mode == WriteMode::Bursty { cfg.write_mode = WriteMode::Cap(5); }
            if cfg.eager != 0 { cfg.eager = 16; }
            cfg.eintr_read = 0;
            cfg.eintr_write = 0;
            cfg.zero_write = 0;
        }
        let wire = Rc::new(RefCell::new(Wire::new()));
        let server = Rc::new(RefCell::new(Server::new(wire.clone(), ctx.clone(), params)));
        World { ctx, wire, cfg: Rc::new(RefCell::new(cfg)), server }
    }

    pub fn client_end(&self) -> ClientEnd {
        ClientEnd::new(self.wire.clone(), self.ctx.clone(), self.cfg.clone(), Some(self.server.clone() as Rc<RefCell<dyn Pump>>))
    }

    /// let the server run outside of a client read (driver operation)
    pub fn pump(&self) -> bool {
        self.server.borrow_mut().pump()
    }

    /// flush what the driver queued on the server
    pub fn flush(&self) {
        let _h = crate::harness::HarnessRegion::enter();
        self.server.borrow_mut().flush();
    }
}
