// reference server modules
