//! Reference RDP server written from the specifications; shares no code with rdp-rs.
pub mod bytes;
pub mod build;
pub mod strict;
pub mod server;
pub mod world;
pub mod md4;
pub mod rc4;
pub mod md5h;
pub mod der;
pub mod ntlm;
pub mod cssp;
pub mod nla;
pub mod mutate;
