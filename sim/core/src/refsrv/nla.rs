//! CredSSP (MS-CSSP) + NTLMv2 server side of the reference server. Honest by default; the
//! final pubKeyAuth reply and every message can be replaced by the scenario (C01, C07).

use super::cssp::{self, TsCredentials, TsRequest};
use super::der;
use super::ntlm::{self, ChallengeCfg, Negotiate, SealCtx, Verified};
use super::server::{cert_der, NlaHandler, NlaStep};
use crate::tape::{hex_short, Ctx};
use std::cell::RefCell;
use std::rc::Rc;

/// contents of the subjectPublicKey BIT STRING of a certificate (what CredSSP binds to)
pub fn subject_public_key(cert_der_bytes: &[u8]) -> Vec<u8> {
    let x = openssl::x509::X509::from_der(cert_der_bytes).expect("cert der");
    let spki = x.public_key().expect("pkey").public_key_to_der().expect("spki");
    let (outer, _) = der::parse_tlv(&spki, false).expect("spki tlv");
    let parts = der::parse_seq(&outer.value, false).expect("spki seq");
    let bits = &parts[1];
    assert_eq!(bits.tag, 0x03);
    bits.value[1..].to_vec()
}

/// value + 1 as an unsigned little-endian integer of the same length (carry propagates)
pub fn increment_le(key: &[u8]) -> Vec<u8> {
    let mut out = key.to_vec();
    for b in out.iter_mut() {
        if *b == 0xff {
            *b = 0;
        } else {
            *b += 1;
            return out;
        }
    }
    out.push(1);
    out
}

#[derive(Default)]
pub struct NlaResults {
    pub negotiate_raw: Vec<u8>,
    pub challenge_raw: Vec<u8>,
    pub auth_raw: Vec<u8>,
    /// strict-parser complaints about client tokens (C04 / C15 material)
    pub strict_errors: Vec<String>,
    pub auth_verdict: Option<Result<Verified, String>>,
    pub pubkeyauth_plain: Option<Result<Vec<u8>, String>>,
    pub pubkey_matches: Option<bool>,
    pub credentials: Option<Result<TsCredentials, String>>,
    /// log sequence numbers
    pub final_reply_seq: Option<u64>,
    pub credentials_seq: Option<u64>,
    pub client_ts_versions: Vec<u64>,
    /// decrypted application bytes that arrived after the final reply went out
    pub bytes_after_final_reply: Vec<u8>,
    pub stage: u8,
    /// every plaintext the client sealed (for secret searches)
    pub unsealed_plaintexts: Vec<Vec<u8>>,
    pub exported_session_key: Option<[u8; 16]>,
    /// application bytes consumed up to and including TSRequest#2
    pub bytes_before_final_reply: usize,
    pub negotiate_ts_len: usize,
}

pub struct FinalCtx<'a> {
    pub honest_key: &'a [u8],
    pub exported_session_key: [u8; 16],
    pub seal: &'a mut SealCtx,
    pub client_pubkeyauth_token: &'a [u8],
    pub cssp_version: u64,
    pub cert_index: usize,
}

pub type FinalReplyFn = Box<dyn FnMut(&mut Ctx, &mut FinalCtx) -> Vec<Vec<u8>>>;
/// (stage, honest TSRequest bytes) -> bytes to send instead (None = honest)
pub type TsMutator = Box<dyn FnMut(&mut Ctx, u8, &[u8], &[u8]) -> Option<Vec<u8>>>;

pub struct Nla {
    pub nt_hash: [u8; 16],
    pub cssp_version: u64,
    pub challenge_cfg: ChallengeCfg,
    pub results: Rc<RefCell<NlaResults>>,
    pub final_reply: Option<FinalReplyFn>,
    pub ts_mutator: Option<TsMutator>,
    neg: Option<Negotiate>,
    seal: Option<SealCtx>,
    stage: u8,
    /// keep listening after the final reply even if it was a forgery
    pub expect_credentials: bool,
    /// NegotiateFlags bits the server clears in its CHALLENGE (a server is free to negotiate less)
    pub challenge_flags_clear: u32,
}

impl Nla {
    pub fn new(nt_hash: [u8; 16], cssp_version: u64, challenge_cfg: ChallengeCfg) -> Nla {
        Nla { nt_hash, cssp_version, challenge_cfg, results: Rc::new(RefCell::new(NlaResults::default())), final_reply: None, ts_mutator: None, neg: None, seal: None, stage: 0, expect_credentials: true, challenge_flags_clear: 0 }
    }
}

fn ts(version: u64, tokens: Vec<Vec<u8>>, pub_key_auth: Option<Vec<u8>>) -> Vec<u8> {
    cssp::build_ts_request(&TsRequest { version, nego_tokens: tokens, auth_info: None, pub_key_auth, error_code: None, client_nonce: None })
}

impl NlaHandler for Nla {
    fn on_bytes(&mut self, ctx: &mut Ctx, inbuf: &[u8], cert_index: usize) -> NlaStep {
        let mut step = NlaStep { consumed: 0, replies: vec![], done: false, dead: false };
        let mut res = self.results.borrow_mut();
        if self.stage >= 2 && res.final_reply_seq.is_some() {
            // everything from here on came after the final reply
        }
        let total = match der::complete_len(inbuf) {
            Ok(Some(n)) => n,
            Ok(None) => return step,
            Err(e) => {
                res.strict_errors.push(format!("cssp/der-header/{}", e));
                ctx.ev("C->S", format!("UNPARSEABLE TSRequest {}", hex_short(inbuf)));
                if self.stage >= 2 {
                    res.bytes_after_final_reply.extend_from_slice(inbuf);
                }
                step.consumed = inbuf.len();
                step.dead = true;
                return step;
            }
        };
        let msg = &inbuf[..total];
        step.consumed = total;
        if self.stage >= 2 {
            res.bytes_after_final_reply.extend_from_slice(msg);
        }
        let req = match cssp::parse_ts_request(msg, true) {
            Ok(r) => r,
            Err(e) => {
                res.strict_errors.push(format!("cssp/tsrequest/{}", e));
                ctx.ev("C->S", format!("TSRequest rejected by the strict parser: {} {}", e, hex_short(msg)));
                match cssp::parse_ts_request(msg, false) {
                    Ok(r) => r,
                    Err(_) => {
                        step.dead = true;
                        return step;
                    }
                }
            }
        };
        res.client_ts_versions.push(req.version);
        match self.stage {
            0 => {
                ctx.ev("C->S", format!("TSRequest#1 negotiate ({} bytes) {}", msg.len(), hex_short(msg)));
                let token = match req.nego_tokens.first() {
                    Some(t) => t.clone(),
                    None => {
                        res.strict_errors.push("cssp/tsrequest1/no-negoToken".into());
                        step.dead = true;
                        return step;
                    }
                };
                if req.nego_tokens.len() != 1 || req.auth_info.is_some() || req.pub_key_auth.is_some() {
                    res.strict_errors.push("cssp/tsrequest1/unexpected-fields".into());
                }
                res.negotiate_raw = token.clone();
                res.negotiate_ts_len = total;
                let neg = match ntlm::parse_negotiate(&token) {
                    Ok(n) => n,
                    Err(e) => {
                        res.strict_errors.push(format!("ntlm/negotiate/{}", e));
                        step.dead = true;
                        return step;
                    }
                };
                let mut challenge = ntlm::build_challenge(&neg, &self.challenge_cfg);
                if self.challenge_flags_clear != 0 && challenge.len() >= 24 {
                    let f = u32::from_le_bytes([challenge[20], challenge[21], challenge[22], challenge[23]]) & !self.challenge_flags_clear;
                    challenge[20..24].copy_from_slice(&f.to_le_bytes());
                }
                res.challenge_raw = challenge.clone();
                self.neg = Some(neg);
                let honest = ts(self.cssp_version, vec![challenge.clone()], None);
                let bytes = match self.ts_mutator.as_mut() {
                    Some(m) => m(ctx, 0, &honest, &challenge).unwrap_or(honest),
                    None => honest,
                };
                step.replies.push(("cssp-challenge".to_string(), bytes));
                self.stage = 1;
                res.stage = 1;
            }
            1 => {
                ctx.ev("C->S", format!("TSRequest#2 authenticate+pubKeyAuth ({} bytes)", msg.len()));
                let token = match req.nego_tokens.first() {
                    Some(t) => t.clone(),
                    None => {
                        res.strict_errors.push("cssp/tsrequest2/no-negoToken".into());
                        step.dead = true;
                        return step;
                    }
                };
                res.auth_raw = token.clone();
                let pka = match &req.pub_key_auth {
                    Some(p) => p.clone(),
                    None => {
                        res.strict_errors.push("cssp/tsrequest2/no-pubKeyAuth".into());
                        step.dead = true;
                        return step;
                    }
                };
                let neg = self.neg.clone().unwrap();
                let verdict = ntlm::parse_authenticate(&token).and_then(|a| ntlm::verify_authenticate(&neg, &res.challenge_raw, &self.challenge_cfg, &a, &self.nt_hash));
                ctx.ev("srv", format!("AUTHENTICATE verdict: {}", match &verdict { Ok(_) => "accepted".to_string(), Err(e) => format!("REJECTED {}", e) }));
                let key = match &verdict {
                    Ok(v) => v.exported_session_key,
                    Err(_) => {
                        res.auth_verdict = Some(verdict);
                        // a real server answers with an error / closes; nothing more to learn
                        step.dead = true;
                        return step;
                    }
                };
                res.auth_verdict = Some(verdict);
                res.exported_session_key = Some(key);
                let mut seal = SealCtx::new(&key, true);
                let plain = seal.unseal(&pka);
                let honest_key = subject_public_key(&cert_der(cert_index));
                if let Ok(p) = &plain {
                    res.unsealed_plaintexts.push(p.clone());
                    res.pubkey_matches = Some(*p == honest_key);
                    ctx.ev("srv", format!("pubKeyAuth unsealed ({} bytes), equals presented key: {}", p.len(), *p == honest_key));
                } else {
                    ctx.ev("srv", "pubKeyAuth did not unseal".to_string());
                }
                let ok = plain.is_ok();
                res.pubkeyauth_plain = Some(plain);
                if !ok {
                    step.dead = true;
                    return step;
                }
                let replies: Vec<Vec<u8>> = match self.final_reply.as_mut() {
                    Some(f) => {
                        let mut fc = FinalCtx { honest_key: &honest_key, exported_session_key: key, seal: &mut seal, client_pubkeyauth_token: &pka, cssp_version: self.cssp_version, cert_index };
                        f(ctx, &mut fc)
                    }
                    None => {
                        let honest = ts(self.cssp_version, vec![], Some(seal.seal(&increment_le(&honest_key))));
                        match self.ts_mutator.as_mut() {
                            Some(m) => vec![m(ctx, 1, &honest, &[]).unwrap_or(honest)],
                            None => vec![honest],
                        }
                    }
                };
                for r in replies {
                    step.replies.push(("cssp-pubkeyauth-reply".to_string(), r));
                }
                // the reply is on its way once this pump flushes; the sequence number of this event marks it
                ctx.ev("srv", "final CredSSP reply queued".to_string());
                res.final_reply_seq = Some(ctx.seq());
                res.bytes_before_final_reply = res.negotiate_ts_len + total;
                self.seal = Some(seal);
                self.stage = 2;
                res.stage = 2;
            }
            2 => {
                ctx.ev("C->S", format!("TSRequest#3 authInfo ({} bytes)", msg.len()));
                let info = match &req.auth_info {
                    Some(a) => a.clone(),
                    None => {
                        res.strict_errors.push("cssp/tsrequest3/no-authInfo".into());
                        step.dead = true;
                        return step;
                    }
                };
                if !req.nego_tokens.is_empty() || req.pub_key_auth.is_some() {
                    res.strict_errors.push("cssp/tsrequest3/unexpected-fields".into());
                }
                let seal = self.seal.as_mut().unwrap();
                let creds = seal.unseal(&info).and_then(|p| {
                    res.unsealed_plaintexts.push(p.clone());
                    cssp::parse_ts_credentials(&p, true).map_err(|e| format!("tscredentials: {}", e))
                });
                ctx.ev("srv", format!("TSCredentials: {}", match &creds { Ok(c) => format!("type {} domain {}B user {}B password {}B", c.cred_type, c.domain.len(), c.user.len(), c.password.len()), Err(e) => format!("REJECTED {}", e) }));
                res.credentials = Some(creds);
                res.credentials_seq = Some(ctx.seq());
                self.stage = 3;
                res.stage = 3;
                step.done = true;
            }
            _ => {
                step.done = true;
            }
        }
        step
    }
}
