//! Strict byte reader and a writer that records a field map (offset, width, name) for the mutators.

pub type PResult<T> = Result<T, String>;

pub struct Rd<'a> {
    pub data: &'a [u8],
    pub pos: usize,
    pub what: &'static str,
}

impl<'a> Rd<'a> {
    pub fn new(data: &'a [u8], what: &'static str) -> Rd<'a> {
        Rd { data, pos: 0, what }
    }
    pub fn left(&self) -> usize {
        self.data.len() - self.pos
    }
    pub fn need(&self, n: usize, field: &str) -> PResult<()> {
        if self.left() < n {
            Err(format!("{}/{}/truncated", self.what, field))
        } else {
            Ok(())
        }
    }
    pub fn u8(&mut self, field: &str) -> PResult<u8> {
        self.need(1, field)?;
        let v = self.data[self.pos];
        self.pos += 1;
        Ok(v)
    }
    pub fn u16le(&mut self, field: &str) -> PResult<u16> {
        self.need(2, field)?;
        let v = u16::from_le_bytes([self.data[self.pos], self.data[self.pos + 1]]);
        self.pos += 2;
        Ok(v)
    }
    pub fn u16be(&mut self, field: &str) -> PResult<u16> {
        self.need(2, field)?;
        let v = u16::from_be_bytes([self.data[self.pos], self.data[self.pos + 1]]);
        self.pos += 2;
        Ok(v)
    }
    pub fn u32le(&mut self, field: &str) -> PResult<u32> {
        self.need(4, field)?;
        let v = u32::from_le_bytes([self.data[self.pos], self.data[self.pos + 1], self.data[self.pos + 2], self.data[self.pos + 3]]);
        self.pos += 4;
        Ok(v)
    }
    pub fn take(&mut self, n: usize, field: &str) -> PResult<&'a [u8]> {
        self.need(n, field)?;
        let s = &self.data[self.pos..self.pos + n];
        self.pos += n;
        Ok(s)
    }
    pub fn rest(&mut self) -> &'a [u8] {
        let s = &self.data[self.pos..];
        self.pos = self.data.len();
        s
    }
    pub fn end(&self, field: &str) -> PResult<()> {
        if self.left() != 0 {
            Err(format!("{}/{}/{}-bytes-left-over", self.what, field, if self.left() > 8 { "many".to_string() } else { self.left().to_string() }))
        } else {
            Ok(())
        }
    }
    /// PER length determinant (<= 0x7fff)
    pub fn per_len(&mut self, field: &str) -> PResult<usize> {
        let b = self.u8(field)?;
        if b & 0x80 != 0 {
            if b & 0x40 != 0 {
                return Err(format!("{}/{}/per-fragmented-length", self.what, field));
            }
            let lo = self.u8(field)?;
            Ok((((b & 0x3f) as usize) << 8) | lo as usize)
        } else {
            Ok(b as usize)
        }
    }
}

#[derive(Clone, Debug)]
pub struct Field {
    pub off: usize,
    pub width: usize,
    pub name: &'static str,
    /// true: big endian
    pub be: bool,
}

#[derive(Clone, Debug, Default)]
pub struct Wr {
    pub buf: Vec<u8>,
    pub fields: Vec<Field>,
}

impl Wr {
    pub fn new() -> Wr {
        Wr { buf: Vec::new(), fields: Vec::new() }
    }
    fn field(&mut self, name: &'static str, width: usize, be: bool) {
        self.fields.push(Field { off: self.buf.len(), width, name, be });
    }
    pub fn u8(&mut self, name: &'static str, v: u8) -> &mut Wr {
        self.field(name, 1, false);
        self.buf.push(v);
        self
    }
    pub fn u16le(&mut self, name: &'static str, v: u16) -> &mut Wr {
        self.field(name, 2, false);
        self.buf.extend_from_slice(&v.to_le_bytes());
        self
    }
    pub fn u16be(&mut self, name: &'static str, v: u16) -> &mut Wr {
        self.field(name, 2, true);
        self.buf.extend_from_slice(&v.to_be_bytes());
        self
    }
    pub fn u32le(&mut self, name: &'static str, v: u32) -> &mut Wr {
        self.field(name, 4, false);
        self.buf.extend_from_slice(&v.to_le_bytes());
        self
    }
    pub fn u32be(&mut self, name: &'static str, v: u32) -> &mut Wr {
        self.field(name, 4, true);
        self.buf.extend_from_slice(&v.to_be_bytes());
        self
    }
    /// opaque bytes: recorded as one field of width 0 (the mutators treat every byte of it as an 8-bit field on demand)
    pub fn bytes(&mut self, name: &'static str, v: &[u8]) -> &mut Wr {
        self.fields.push(Field { off: self.buf.len(), width: 0, name, be: false });
        self.buf.extend_from_slice(v);
        self
    }
    /// PER length determinant: short form when it fits unless `long` is forced
    pub fn per_len(&mut self, name: &'static str, n: usize, force_long: bool) -> &mut Wr {
        if n > 0x7f || force_long {
            self.u16be(name, 0x8000 | (n as u16 & 0x7fff))
        } else {
            self.u8(name, n as u8)
        }
    }
    /// append another writer, shifting its field offsets
    pub fn append(&mut self, other: &Wr) -> &mut Wr {
        let base = self.buf.len();
        for f in &other.fields {
            let mut f = f.clone();
            f.off += base;
            self.fields.push(f);
        }
        self.buf.extend_from_slice(&other.buf);
        self
    }
    pub fn len(&self) -> usize {
        self.buf.len()
    }
}

/// BER/DER length octets
pub fn ber_len(n: usize, form: u8) -> Vec<u8> {
    // form 0: minimal; 1: 0x81 where possible; 2: 0x82 always
    if form == 2 || n > 0xff {
        vec![0x82, (n >> 8) as u8, n as u8]
    } else if form == 1 || n > 0x7f {
        vec![0x81, n as u8]
    } else {
        vec![n as u8]
    }
}
