//! MD5 (through openssl) and HMAC-MD5 (RFC 2104) on top of it.

use openssl::hash::{hash, MessageDigest};

pub fn md5(data: &[u8]) -> [u8; 16] {
    let d = hash(MessageDigest::md5(), data).expect("md5");
    let mut out = [0u8; 16];
    out.copy_from_slice(&d);
    out
}

pub fn hmac_md5(key: &[u8], data: &[u8]) -> [u8; 16] {
    let mut k = [0u8; 64];
    if key.len() > 64 {
        k[..16].copy_from_slice(&md5(key));
    } else {
        k[..key.len()].copy_from_slice(key);
    }
    let mut inner: Vec<u8> = k.iter().map(|b| b ^ 0x36).collect();
    inner.extend_from_slice(data);
    let mut outer: Vec<u8> = k.iter().map(|b| b ^ 0x5c).collect();
    outer.extend_from_slice(&md5(&inner));
    md5(&outer)
}

#[cfg(test)]
mod tests {
    use super::*;
    fn hex(b: &[u8]) -> String { b.iter().map(|x| format!("{:02x}", x)).collect() }

    #[test]
    fn rfc1321_vectors() {
        assert_eq!(hex(&md5(b"")), "d41d8cd98f00b204e9800998ecf8427e");
        assert_eq!(hex(&md5(b"abc")), "900150983cd24fb0d6963f7d28e17f72");
        assert_eq!(hex(&md5(b"message digest")), "f96b697d7cb7938d525a2f31aaf161d0");
    }

    #[test]
    fn rfc2202_vectors() {
        assert_eq!(hex(&hmac_md5(&[0x0b; 16], b"Hi There")), "9294727a3638bb1c13f48ef8158bfc9d");
        assert_eq!(hex(&hmac_md5(b"Jefe", b"what do ya want for nothing?")), "750c783e6ab0b503eaa86e310a5db738");
        assert_eq!(hex(&hmac_md5(&[0xaa; 16], &[0xdd; 50])), "56be34521d144c88dbb8c733f0e8b3f6");
        let k4: Vec<u8> = (1..=25).collect();
        assert_eq!(hex(&hmac_md5(&k4, &[0xcd; 50])), "697eaf0aca3a3aea3a75164746ffaa79");
        assert_eq!(hex(&hmac_md5(&[0x0c; 16], b"Test With Truncation")), "56461ef2342edc00f9bab995690efd4c");
        assert_eq!(
            hex(&hmac_md5(&[0xaa; 80], b"Test Using Larger Than Block-Size Key - Hash Key First")),
            "6b1ab7fe4bd7bf8f0b62e6ce61b9d0cd"
        );
        assert_eq!(
            hex(&hmac_md5(&[0xaa; 80], b"Test Using Larger Than Block-Size Key and Larger Than One Block-Size Data")),
            "6f630fad67cda0ee1fb1f562db3aa53e"
        );
    }
}
