//! NTLMv2 server side (MS-NLMP): message parsing/building, response verification, session security.

use super::md4::md4;
use super::md5h::{hmac_md5, md5};
use super::rc4::Rc4;

pub const NEG_UNICODE: u32 = 0x1;
pub const NEG_OEM: u32 = 0x2;
pub const REQUEST_TARGET: u32 = 0x4;
pub const NEG_SIGN: u32 = 0x10;
pub const NEG_SEAL: u32 = 0x20;
pub const NEG_NTLM: u32 = 0x200;
pub const NEG_ALWAYS_SIGN: u32 = 0x8000;
pub const TARGET_TYPE_SERVER: u32 = 0x20000;
pub const NEG_ESS: u32 = 0x80000;
pub const NEG_TARGET_INFO: u32 = 0x800000;
pub const NEG_VERSION: u32 = 0x2000000;
pub const NEG_128: u32 = 0x20000000;
pub const NEG_KEY_EXCH: u32 = 0x40000000;
pub const NEG_56: u32 = 0x80000000;

const SIGNATURE: &[u8; 8] = b"NTLMSSP\0";
const MSV_AV_FLAGS: u16 = 6;
const MSV_AV_TIMESTAMP: u16 = 7;

pub fn utf16le(s: &str) -> Vec<u8> {
    s.encode_utf16().flat_map(|u| u.to_le_bytes()).collect()
}

pub fn from_utf16le(b: &[u8]) -> Result<String, String> {
    if b.len() % 2 != 0 {
        return Err("utf16: odd byte count".into());
    }
    let units: Vec<u16> = b.chunks(2).map(|c| u16::from_le_bytes([c[0], c[1]])).collect();
    String::from_utf16(&units).map_err(|_| "utf16: unpaired surrogate".to_string())
}

/// NTOWFv1: MD4(UNICODE(password))
pub fn nt_hash(password: &str) -> [u8; 16] {
    md4(&utf16le(password))
}

/// NTOWFv2: HMAC_MD5(nt_hash, UNICODE(Uppercase(user) || domain))
pub fn ntowfv2(nt_hash: &[u8; 16], user: &str, domain: &str) -> [u8; 16] {
    hmac_md5(nt_hash, &utf16le(&(user.to_uppercase() + domain)))
}

/// MS-NLMP writes UpperCase(User) and does not say which mapping that is. Two are in use: the full Unicode mapping
/// ("ß" -> "SS", supplementary planes mapped) and the one-UTF-16-unit-at-a-time mapping of Windows, Samba and FreeRDP
/// (a unit is replaced by one unit or kept). An account data base built with either is an MS-NLMP server; the
/// verifier accepts a proof made with either (they only differ on a few characters).
pub fn upper_case_variants(user: &str) -> Vec<String> {
    let full = user.to_uppercase();
    let simple: String = user.chars().map(|c| {
        let mut u = c.to_uppercase();
        match (u.next(), u.next()) {
            (Some(x), None) if c.len_utf16() == 1 && x.len_utf16() == 1 => x,
            _ => c,
        }
    }).collect();
    if simple == full { vec![full] } else { vec![full, simple] }
}

fn ntowfv2_with(nt_hash: &[u8; 16], upper_user: &str, domain: &str) -> [u8; 16] {
    hmac_md5(nt_hash, &utf16le(&(upper_user.to_string() + domain)))
}

fn u16_at(m: &[u8], o: usize) -> usize {
    u16::from_le_bytes([m[o], m[o + 1]]) as usize
}
fn u32_at(m: &[u8], o: usize) -> u32 {
    u32::from_le_bytes([m[o], m[o + 1], m[o + 2], m[o + 3]])
}

/// Signature and MessageType; the message must hold at least `fixed` bytes.
fn check_header(msg: &[u8], mtype: u32, fixed: usize) -> Result<(), String> {
    if msg.len() < 12 || &msg[..8] != SIGNATURE {
        return Err("header: bad signature".into());
    }
    if u32_at(msg, 8) != mtype {
        return Err(format!("header: message type {} instead of {}", u32_at(msg, 8), mtype));
    }
    if msg.len() < fixed {
        return Err(format!("header: {} bytes, fixed part needs {}", msg.len(), fixed));
    }
    Ok(())
}

/// Read the (Len, MaxLen, Offset) triple at `at`; returns the byte range of the field (empty range for Len 0).
/// A non-empty field must lie inside the message at/after `fixed_end`.
fn field_range(msg: &[u8], at: usize, fixed_end: usize, name: &str) -> Result<(usize, usize), String> {
    let (len, max, off) = (u16_at(msg, at), u16_at(msg, at + 2), u32_at(msg, at + 4) as usize);
    if len != max {
        return Err(format!("field: {} Len {} != MaxLen {}", name, len, max));
    }
    if len == 0 {
        return Ok((0, 0));
    }
    if off < fixed_end {
        return Err(format!("field: {} at {} lies inside the fixed header ({})", name, off, fixed_end));
    }
    if off + len > msg.len() {
        return Err(format!("field: {} [{}..{}] exceeds the message ({})", name, off, off + len, msg.len()));
    }
    Ok((off, off + len))
}

/// Sorted non-empty ranges must not overlap
fn check_overlap(ranges: &[(usize, usize)]) -> Result<Vec<(usize, usize)>, String> {
    let mut r: Vec<(usize, usize)> = ranges.iter().cloned().filter(|(s, e)| e > s).collect();
    r.sort();
    for w in r.windows(2) {
        if w[1].0 < w[0].1 {
            return Err(format!("field: [{}..{}] overlaps [{}..{}]", w[0].0, w[0].1, w[1].0, w[1].1));
        }
    }
    Ok(r)
}

#[derive(Clone, Debug)]
pub struct Negotiate {
    pub flags: u32,
    pub domain: Vec<u8>,
    pub workstation: Vec<u8>,
    pub has_version: bool,
    pub raw: Vec<u8>,
}

/// Strict parse of a client NEGOTIATE_MESSAGE (MS-NLMP 2.2.1.1)
pub fn parse_negotiate(msg: &[u8]) -> Result<Negotiate, String> {
    check_header(msg, 1, 32)?;
    let flags = u32_at(msg, 12);
    let has_version = flags & NEG_VERSION != 0;
    let fixed_end = if has_version { 40 } else { 32 };
    check_header(msg, 1, fixed_end)?;
    let d = field_range(msg, 16, fixed_end, "DomainName")?;
    let w = field_range(msg, 24, fixed_end, "Workstation")?;
    check_overlap(&[d, w])?;
    Ok(Negotiate { flags, domain: msg[d.0..d.1].to_vec(), workstation: msg[w.0..w.1].to_vec(), has_version, raw: msg.to_vec() })
}

#[derive(Clone, Debug)]
pub struct ChallengeCfg {
    pub server_challenge: [u8; 8],
    pub target_name: String,
    pub av_pairs: Vec<(u16, Vec<u8>)>,
    pub with_version: bool,
    pub extra_flags: u32,
    pub target_info_first: bool,
}

/// The TargetInfo bytes sent for this configuration: the AV_PAIRs in order, closed by MsvAvEOL
fn target_info(cfg: &ChallengeCfg) -> Vec<u8> {
    let mut out = Vec::new();
    for (id, value) in cfg.av_pairs.iter().chain(std::iter::once(&(0u16, Vec::new()))) {
        out.extend_from_slice(&id.to_le_bytes());
        out.extend_from_slice(&(value.len() as u16).to_le_bytes());
        out.extend_from_slice(value);
    }
    out
}

/// Build the CHALLENGE_MESSAGE (MS-NLMP 2.2.1.2). The Version field is present exactly when the
/// resulting flags carry NTLMSSP_NEGOTIATE_VERSION (cfg.with_version, cfg.extra_flags or the client asked for it).
pub fn build_challenge(neg: &Negotiate, cfg: &ChallengeCfg) -> Vec<u8> {
    let mut flags = (neg.flags & 0xe2088235) | NEG_TARGET_INFO | TARGET_TYPE_SERVER | cfg.extra_flags;
    if cfg.with_version {
        flags |= NEG_VERSION;
    }
    let with_version = flags & NEG_VERSION != 0;
    let header = if with_version { 56 } else { 48 };
    let name = if neg.flags & REQUEST_TARGET != 0 { utf16le(&cfg.target_name) } else { Vec::new() };
    let info = target_info(cfg);
    let (name_off, info_off) = if cfg.target_info_first { (header + info.len(), header) } else { (header, header + name.len()) };
    let triple = |len: usize, off: usize| {
        let mut t = Vec::new();
        t.extend_from_slice(&(len as u16).to_le_bytes());
        t.extend_from_slice(&(len as u16).to_le_bytes());
        t.extend_from_slice(&(off as u32).to_le_bytes());
        t
    };
    let mut m = SIGNATURE.to_vec();
    m.extend_from_slice(&2u32.to_le_bytes());
    m.extend(triple(name.len(), name_off));
    m.extend_from_slice(&flags.to_le_bytes());
    m.extend_from_slice(&cfg.server_challenge);
    m.extend_from_slice(&[0u8; 8]);
    m.extend(triple(info.len(), info_off));
    if with_version {
        // Windows 6.1 build 7601, NTLMSSP_REVISION_W2K3
        m.extend_from_slice(&[6, 1, 0xb1, 0x1d, 0, 0, 0, 15]);
    }
    if cfg.target_info_first {
        m.extend_from_slice(&info);
        m.extend_from_slice(&name);
    } else {
        m.extend_from_slice(&name);
        m.extend_from_slice(&info);
    }
    m
}

#[derive(Clone, Debug)]
pub struct Authenticate {
    pub lm_response: Vec<u8>,
    pub nt_response: Vec<u8>,
    pub domain: Vec<u8>,
    pub user: Vec<u8>,
    pub workstation: Vec<u8>,
    pub encrypted_session_key: Vec<u8>,
    pub flags: u32,
    pub has_version: bool,
    pub mic: Option<[u8; 16]>,
    pub mic_offset: usize,
    pub payload_offset: usize,
    pub raw: Vec<u8>,
}

/// Strict parse of the AUTHENTICATE_MESSAGE (MS-NLMP 2.2.1.3). Between the fixed part (64 bytes, 72 with
/// Version) and the payload lies either nothing (mic = None, mic_offset = 0) or exactly the 16 byte MIC;
/// the non-empty fields tile the payload without gap, overlap or trailing bytes.
pub fn parse_authenticate(msg: &[u8]) -> Result<Authenticate, String> {
    check_header(msg, 3, 64)?;
    let flags = u32_at(msg, 60);
    let has_version = flags & NEG_VERSION != 0;
    let fixed_end = if has_version { 72 } else { 64 };
    check_header(msg, 3, fixed_end)?;
    const NAMES: [&str; 6] = ["LmChallengeResponse", "NtChallengeResponse", "DomainName", "UserName", "Workstation", "EncryptedRandomSessionKey"];
    let mut r = [(0usize, 0usize); 6];
    for i in 0..6 {
        r[i] = field_range(msg, 12 + 8 * i, fixed_end, NAMES[i])?;
    }
    let sorted = check_overlap(&r)?;
    let payload_offset = sorted.first().map(|f| f.0).unwrap_or(msg.len());
    // between the fixed part and the payload: nothing, or exactly the MIC
    let (mic, mic_offset) = match payload_offset - fixed_end {
        0 => (None, 0),
        16 => {
            let mut m = [0u8; 16];
            m.copy_from_slice(&msg[fixed_end..payload_offset]);
            (Some(m), fixed_end)
        }
        n => return Err(format!("field: {} stray bytes between the fixed part ({}) and the payload ({})", n, fixed_end, payload_offset)),
    };
    // the fields tile the payload exactly
    let mut pos = payload_offset;
    for (s, e) in &sorted {
        if *s != pos {
            return Err(format!("field: gap [{}..{}] belongs to no field", pos, s));
        }
        pos = *e;
    }
    if pos != msg.len() {
        return Err(format!("field: {} trailing bytes", msg.len() - pos));
    }
    let get = |i: usize| msg[r[i].0..r[i].1].to_vec();
    Ok(Authenticate {
        lm_response: get(0),
        nt_response: get(1),
        domain: get(2),
        user: get(3),
        workstation: get(4),
        encrypted_session_key: get(5),
        flags,
        has_version,
        mic,
        mic_offset,
        payload_offset,
        raw: msg.to_vec(),
    })
}

#[derive(Clone, Debug)]
pub struct Verified {
    pub user: String,
    pub domain: String,
    pub exported_session_key: [u8; 16],
    pub session_base_key: [u8; 16],
    pub client_challenge: [u8; 8],
    pub mic_checked: bool,
    /// which reading of UpperCase(User) made the proof verify (index into `upper_case_variants`) and how many readings
    /// the user name has (1 = they coincide)
    pub upper_variant: usize,
    pub upper_variants: usize,
}

/// Server-side verification of the AUTHENTICATE_MESSAGE (MS-NLMP 3.3.2, 3.2.5.2.2)
pub fn verify_authenticate(neg: &Negotiate, challenge_raw: &[u8], challenge_cfg: &ChallengeCfg, auth: &Authenticate, nt_hash: &[u8; 16]) -> Result<Verified, String> {
    let text = |b: &[u8], what: &str| -> Result<String, String> {
        if auth.flags & NEG_UNICODE != 0 {
            from_utf16le(b).map_err(|e| format!("field: {} {}", what, e))
        } else {
            String::from_utf8(b.to_vec()).map_err(|_| format!("field: {} is not valid OEM/UTF-8", what))
        }
    };
    let user = text(&auth.user, "UserName")?;
    let domain = text(&auth.domain, "DomainName")?;

    // NTLMv2_RESPONSE = NTProofStr(16) || NTLMv2_CLIENT_CHALLENGE (temp)
    let nt = &auth.nt_response;
    if nt.len() < 16 + 28 {
        return Err(format!("temp: NtChallengeResponse has {} bytes, NTLMv2 needs at least 44", nt.len()));
    }
    let (proof, temp) = nt.split_at(16);
    if temp[..8] != [1, 1, 0, 0, 0, 0, 0, 0] {
        return Err("temp: RespType/HiRespType/Reserved is not 01 01 00*6".into());
    }
    let sent_time = challenge_cfg.av_pairs.iter().find(|(id, _)| *id == MSV_AV_TIMESTAMP);
    if let Some((_, t)) = sent_time {
        if temp[8..16] != t[..] {
            return Err("temp: TimeStamp differs from the MsvAvTimestamp of the challenge".into());
        }
    }
    let mut client_challenge = [0u8; 8];
    client_challenge.copy_from_slice(&temp[16..24]);
    if temp[24..28] != [0u8; 4] {
        return Err("temp: Reserved3 is not zero".into());
    }
    // AvPairs: the pairs of the challenge, in their order and with their values, closed by MsvAvEOL. MS-NLMP 3.1.5.1.2
    // lets the client add to them: MsvAvFlags (or more bits in the one the server sent) to announce its MIC,
    // MsvAvSingleHost, MsvAvTargetName and MsvAvChannelBindings.
    let avs = &temp[28..];
    let mut client_pairs: Vec<(u16, &[u8])> = Vec::new();
    let mut pos = 0usize;
    let rest: &[u8] = loop {
        if avs.len() < pos + 4 {
            return Err("temp: AvPairs are not closed by MsvAvEOL".into());
        }
        let id = u16::from_le_bytes([avs[pos], avs[pos + 1]]);
        let len = u16::from_le_bytes([avs[pos + 2], avs[pos + 3]]) as usize;
        if avs.len() < pos + 4 + len {
            return Err(format!("temp: AvPair {:#x} announces {} bytes, {} follow", id, len, avs.len() - pos - 4));
        }
        if id == 0 {
            if len != 0 { return Err("temp: MsvAvEOL with a value".into()); }
            break &avs[pos + 4..];
        }
        client_pairs.push((id, &avs[pos + 4..pos + 4 + len]));
        pos += 4 + len;
    };
    if ![0, 4, 8].contains(&rest.len()) || rest.iter().any(|b| *b != 0) {
        return Err(format!("temp: {} unexpected bytes after the AvPairs", rest.len()));
    }
    {
        let mut ci = 0usize;
        for (sid, sval) in challenge_cfg.av_pairs.iter() {
            // MsvAvSingleHost, MsvAvTargetName and MsvAvChannelBindings are the client's to set: whatever a server put
            // there need not come back
            if [8u16, 9, 10].contains(sid) { continue; }
            // find this pair among the client's, skipping what a client may add
            loop {
                let (cid, cval) = match client_pairs.get(ci) { Some(p) => *p, None => return Err(format!("temp: AvPair {:#x} of the challenge is missing from the response", sid)) };
                ci += 1;
                if cid == *sid {
                    let same = if cid == MSV_AV_FLAGS { cval.len() == sval.len() && cval.iter().zip(sval.iter()).all(|(c, s)| c & s == *s) } else { cval == &sval[..] };
                    if !same { return Err(format!("temp: AvPair {:#x} differs from the one in the challenge", sid)); }
                    break;
                }
                if ![MSV_AV_FLAGS, 8, 9, 10].contains(&cid) {
                    return Err(format!("temp: AvPair {:#x} is not in the challenge at that place and not one a client may add", cid));
                }
            }
        }
        for (cid, _) in &client_pairs[ci..] {
            if ![MSV_AV_FLAGS, 8, 9, 10].contains(cid) {
                return Err(format!("temp: AvPair {:#x} is not in the challenge and not one a client may add", cid));
            }
        }
    }

    let server_challenge = &challenge_cfg.server_challenge;
    let variants = upper_case_variants(&user);
    let upper_variants = variants.len();
    let (upper_variant, key) = match variants.iter().map(|u| ntowfv2_with(nt_hash, u, &domain)).enumerate()
        .find(|(_, key)| proof == &hmac_md5(key, &[&server_challenge[..], temp].concat())[..]) {
        Some(found) => found,
        None => return Err("ntproof: NTProofStr mismatch".into()),
    };

    // LMv2: Z(24) or HMAC_MD5(key, ServerChallenge || ClientChallenge) || ClientChallenge
    let lm = &auth.lm_response;
    if lm.len() != 24 {
        return Err(format!("lm: LmChallengeResponse has {} bytes instead of 24", lm.len()));
    }
    if lm.iter().any(|b| *b != 0) {
        if lm[16..] != client_challenge {
            return Err("lm: client challenge differs from the one in the NTLMv2 response".into());
        }
        if lm[..16] != hmac_md5(&key, &[&server_challenge[..], &client_challenge[..]].concat()) {
            return Err("lm: LMv2 response mismatch".into());
        }
    }

    let session_base_key = hmac_md5(&key, proof);
    let mut exported_session_key = session_base_key;
    // MS-NLMP 3.1.5.1.2 / 3.2.5.1.2: the key exchange takes place when KEY_EXCH is negotiated together with SIGN or SEAL;
    // with KEY_EXCH alone both a client that exchanges a key anyway and one that does not are within the text
    let protect = auth.flags & 0x30 != 0;
    if auth.flags & NEG_KEY_EXCH != 0 && (protect || !auth.encrypted_session_key.is_empty()) {
        if auth.encrypted_session_key.len() != 16 {
            return Err(format!("key: EncryptedRandomSessionKey has {} bytes instead of 16", auth.encrypted_session_key.len()));
        }
        exported_session_key.copy_from_slice(&Rc4::new(&session_base_key).apply(&auth.encrypted_session_key));
    } else if !auth.encrypted_session_key.is_empty() {
        return Err("key: EncryptedRandomSessionKey present without NTLMSSP_NEGOTIATE_KEY_EXCH".into());
    }

    if let Some(mic) = auth.mic {
        let mut zeroed = auth.raw.clone();
        zeroed[auth.mic_offset..auth.mic_offset + 16].fill(0);
        if mic != hmac_md5(&exported_session_key, &[&neg.raw[..], challenge_raw, &zeroed[..]].concat()) {
            return Err("mic: MIC mismatch".into());
        }
    }
    Ok(Verified { user, domain, exported_session_key, session_base_key, client_challenge, mic_checked: auth.mic.is_some(), upper_variant, upper_variants })
}

/// NTLMv2 session security, extended session security + key exchange, 128 bit (MS-NLMP 3.4)
pub struct SealCtx {
    send_rc4: Rc4,
    recv_rc4: Rc4,
    send_sign: [u8; 16],
    recv_sign: [u8; 16],
    send_seq: u32,
    recv_seq: u32,
}

impl SealCtx {
    /// is_server=true: sends with server-to-client keys, receives with client-to-server keys.
    pub fn new(exported_session_key: &[u8; 16], is_server: bool) -> SealCtx {
        let derive = |direction: &str, purpose: &str| {
            let magic = format!("session key to {} {} key magic constant\0", direction, purpose);
            md5(&[&exported_session_key[..], magic.as_bytes()].concat())
        };
        let (send, recv) = if is_server { ("server-to-client", "client-to-server") } else { ("client-to-server", "server-to-client") };
        SealCtx {
            send_rc4: Rc4::new(&derive(send, "sealing")),
            recv_rc4: Rc4::new(&derive(recv, "sealing")),
            send_sign: derive(send, "signing"),
            recv_sign: derive(recv, "signing"),
            send_seq: 0,
            recv_seq: 0,
        }
    }

    pub fn seal(&mut self, plaintext: &[u8]) -> Vec<u8> {
        self.seal_with_seq(plaintext, self.send_seq)
    }

    /// Like seal but with a caller chosen sequence number (written and MAC'd); the internal counter still advances
    pub fn seal_with_seq(&mut self, plaintext: &[u8], seq: u32) -> Vec<u8> {
        let seq = seq.to_le_bytes();
        let mac = hmac_md5(&self.send_sign, &[&seq[..], plaintext].concat());
        let sealed = self.send_rc4.apply(plaintext);
        let checksum = self.send_rc4.apply(&mac[..8]);
        self.send_seq = self.send_seq.wrapping_add(1);
        let mut out = vec![1, 0, 0, 0];
        out.extend_from_slice(&checksum);
        out.extend_from_slice(&seq);
        out.extend_from_slice(&sealed);
        out
    }

    /// Errors leave the receive state (key stream and sequence number) untouched
    pub fn unseal(&mut self, message: &[u8]) -> Result<Vec<u8>, String> {
        if message.len() < 16 {
            return Err(format!("short: {} bytes, the signature alone needs 16", message.len()));
        }
        if message[..4] != [1, 0, 0, 0] {
            return Err("version: signature version is not 1".into());
        }
        let seq = u32_at(message, 12);
        if seq != self.recv_seq {
            return Err(format!("seq: got {} expected {}", seq, self.recv_seq));
        }
        let mut rc4 = self.recv_rc4.clone();
        let plaintext = rc4.apply(&message[16..]);
        let checksum = rc4.apply(&message[4..12]);
        let mac = hmac_md5(&self.recv_sign, &[&message[12..16], &plaintext[..]].concat());
        if checksum != mac[..8] {
            return Err("checksum: message signature mismatch".into());
        }
        self.recv_rc4 = rc4;
        self.recv_seq = self.recv_seq.wrapping_add(1);
        Ok(plaintext)
    }

    pub fn send_seq(&self) -> u32 {
        self.send_seq
    }
    pub fn recv_seq(&self) -> u32 {
        self.recv_seq
    }
}

#[cfg(test)]
mod tests {
    use super::*;
    fn hex(b: &[u8]) -> String { b.iter().map(|x| format!("{:02x}", x)).collect() }
    fn unhex(s: &str) -> Vec<u8> {
        let s: String = s.chars().filter(|c| !c.is_whitespace()).collect();
        (0..s.len() / 2).map(|i| u8::from_str_radix(&s[2 * i..2 * i + 2], 16).unwrap()).collect()
    }

    #[test]
    fn utf16() {
        assert_eq!(utf16le("Aé"), vec![0x41, 0, 0xe9, 0]);
        assert_eq!(utf16le("\u{1F600}"), vec![0x3d, 0xd8, 0x00, 0xde]);
        assert_eq!(from_utf16le(&utf16le("dömäin\u{1F600}")).unwrap(), "dömäin\u{1F600}");
        assert!(from_utf16le(&[0x41]).is_err());
        assert!(from_utf16le(&[0x3d, 0xd8]).is_err());
        assert_eq!(from_utf16le(&[]).unwrap(), "");
    }

    // MS-NLMP 4.2.1 common values and 4.2.4 NTLMv2 authentication
    const SERVER_CHALLENGE: [u8; 8] = [0x01, 0x23, 0x45, 0x67, 0x89, 0xab, 0xcd, 0xef];

    fn nlmp_cfg() -> ChallengeCfg {
        ChallengeCfg {
            server_challenge: SERVER_CHALLENGE,
            target_name: "Server".into(),
            av_pairs: vec![(2, utf16le("Domain")), (1, utf16le("Server"))],
            with_version: true,
            extra_flags: 0,
            target_info_first: false,
        }
    }

    fn nlmp_temp() -> Vec<u8> {
        let mut temp = vec![1, 1, 0, 0, 0, 0, 0, 0];
        temp.extend_from_slice(&[0; 8]); // Time
        temp.extend_from_slice(&[0xaa; 8]); // ClientChallenge
        temp.extend_from_slice(&[0; 4]);
        temp.extend(target_info(&nlmp_cfg()));
        temp.extend_from_slice(&[0; 4]);
        temp
    }

    #[test]
    fn nlmp_4_2_4_keys() {
        let h = nt_hash("Password");
        assert_eq!(hex(&h), "a4f49c406510bdcab6824ee7c30fd852");
        let key = ntowfv2(&h, "User", "Domain");
        assert_eq!(hex(&key), "0c868a403bfd7a93a3001ef22ef02e3f");
        assert_eq!(hex(&target_info(&nlmp_cfg())), "02000c0044006f006d00610069006e0001000c005300650072007600650072000000 0000".replace(' ', ""));
        let temp = nlmp_temp();
        let proof = hmac_md5(&key, &[&SERVER_CHALLENGE[..], &temp[..]].concat());
        assert_eq!(hex(&proof), "68cd0ab851e51c96aabc927bebef6a1c");
        let sbk = hmac_md5(&key, &proof);
        assert_eq!(hex(&sbk), "8de40ccadbc14a82f15cb0ad0de95ca3");
        let lm = hmac_md5(&key, &[&SERVER_CHALLENGE[..], &[0xaa; 8][..]].concat());
        assert_eq!(hex(&lm), "86c35097ac9cec102554764a57cccc19");
        // RandomSessionKey 55*16 encrypted under the session base key
        assert_eq!(hex(&Rc4::new(&sbk).apply(&[0x55; 16])), "c5dad2544fc9799094ce1ce90bc9d03e");
    }

    #[test]
    fn nlmp_4_2_4_4_seal() {
        // client side context over RandomSessionKey 55*16, message "Plaintext" in UTF-16LE, SeqNum 0
        let mut c = SealCtx::new(&[0x55; 16], false);
        assert_eq!(hex(&c.send_sign), "4788dc861b4782f35d43fd98fe1a2d39");
        let m = c.seal(&utf16le("Plaintext"));
        assert_eq!(hex(&m[16..]), "54e50165bf1936dc996020c1811b0f06fb5f");
        assert_eq!(hex(&m[..16]), "010000007fb38ec5c55d497600000000");
        let mut s = SealCtx::new(&[0x55; 16], true);
        assert_eq!(s.unseal(&m).unwrap(), utf16le("Plaintext"));
    }

    /// A spec-shaped client (MS-NLMP 3.1.5.1.2) built by hand from the 4.2.4 values
    fn nlmp_authenticate(neg: &[u8], challenge: &[u8], flags: u32, with_mic: bool, trailing_zeros: usize) -> Vec<u8> {
        let key = ntowfv2(&nt_hash("Password"), "User", "Domain");
        let mut temp = nlmp_temp();
        temp.truncate(temp.len() - 4);
        temp.extend(std::iter::repeat(0).take(trailing_zeros));
        let proof = hmac_md5(&key, &[&SERVER_CHALLENGE[..], &temp[..]].concat());
        let sbk = hmac_md5(&key, &proof);
        let mut lm = hmac_md5(&key, &[&SERVER_CHALLENGE[..], &[0xaa; 8][..]].concat()).to_vec();
        lm.extend_from_slice(&[0xaa; 8]);
        let nt = [&proof[..], &temp[..]].concat();
        let exported = [0x55u8; 16];
        let enc = if flags & NEG_KEY_EXCH != 0 { Rc4::new(&sbk).apply(&exported) } else { Vec::new() };
        let fields = [lm, nt, utf16le("Domain"), utf16le("User"), utf16le("COMPUTER"), enc];
        let fixed = 64 + if flags & NEG_VERSION != 0 { 8 } else { 0 } + if with_mic { 16 } else { 0 };
        let mut m = SIGNATURE.to_vec();
        m.extend_from_slice(&3u32.to_le_bytes());
        let mut off = fixed;
        for f in &fields {
            m.extend_from_slice(&(f.len() as u16).to_le_bytes());
            m.extend_from_slice(&(f.len() as u16).to_le_bytes());
            m.extend_from_slice(&(off as u32).to_le_bytes());
            off += f.len();
        }
        m.extend_from_slice(&flags.to_le_bytes());
        m.resize(fixed, 0);
        for f in &fields {
            m.extend_from_slice(f);
        }
        if with_mic {
            let k = if flags & NEG_KEY_EXCH != 0 { exported } else { sbk };
            let mic = hmac_md5(&k, &[neg, challenge, &m[..]].concat());
            m[fixed - 16..fixed].copy_from_slice(&mic);
        }
        m
    }

    fn nlmp_negotiate() -> Vec<u8> {
        let mut m = SIGNATURE.to_vec();
        m.extend_from_slice(&1u32.to_le_bytes());
        m.extend_from_slice(&0xe2088297u32.to_le_bytes());
        m.extend_from_slice(&[0; 16]);
        m.extend_from_slice(&[6, 1, 0xb1, 0x1d, 0, 0, 0, 15]);
        m
    }

    #[test]
    fn challenge_layout() {
        let neg = parse_negotiate(&nlmp_negotiate()).unwrap();
        assert!(neg.has_version);
        for first in [false, true] {
            for ver in [false, true] {
                let mut n = neg.clone();
                if !ver {
                    n.flags &= !NEG_VERSION;
                }
                let cfg = ChallengeCfg { target_info_first: first, with_version: ver, ..nlmp_cfg() };
                let c = build_challenge(&n, &cfg);
                let header = if ver { 56 } else { 48 };
                assert_eq!(&c[..12], b"NTLMSSP\0\x02\0\0\0");
                let flags = u32_at(&c, 20);
                assert_eq!(flags & NEG_VERSION != 0, ver);
                assert_eq!(flags & (NEG_TARGET_INFO | TARGET_TYPE_SERVER | NEG_UNICODE | NEG_KEY_EXCH), NEG_TARGET_INFO | TARGET_TYPE_SERVER | NEG_UNICODE | NEG_KEY_EXCH);
                assert_eq!(&c[24..32], &SERVER_CHALLENGE);
                assert_eq!(&c[32..40], &[0; 8]);
                let (nl, no) = (u16_at(&c, 12), u32_at(&c, 16) as usize);
                let (il, io) = (u16_at(&c, 40), u32_at(&c, 44) as usize);
                assert_eq!((u16_at(&c, 14), u16_at(&c, 42)), (nl, il));
                assert_eq!(&c[no..no + nl], &utf16le("Server")[..]);
                assert_eq!(&c[io..io + il], &target_info(&cfg)[..]);
                assert_eq!(no.min(io), header);
                assert_eq!(c.len(), header + nl + il);
                assert_eq!(first, io < no);
            }
        }
        // no REQUEST_TARGET: empty TargetName
        let mut n = neg.clone();
        n.flags &= !REQUEST_TARGET;
        let c = build_challenge(&n, &nlmp_cfg());
        assert_eq!(u16_at(&c, 12), 0);
        assert_eq!(u32_at(&c, 20) & REQUEST_TARGET, 0);
    }

    #[test]
    fn negotiate_strictness() {
        let good = nlmp_negotiate();
        assert!(parse_negotiate(&good).is_ok());
        // 32 bytes, no version, empty fields with offset 0: what the client under test sends
        let mut min = good[..32].to_vec();
        min[12..16].copy_from_slice(&0x60088235u32.to_le_bytes());
        let n = parse_negotiate(&min).unwrap();
        assert_eq!((n.flags, n.has_version, n.domain.len(), n.workstation.len()), (0x60088235, false, 0, 0));
        assert!(parse_negotiate(&good[..39]).is_err()); // version flag without version
        assert!(parse_negotiate(&min[..31]).is_err());
        let mut bad = good.clone();
        bad[0] = b'n';
        assert!(parse_negotiate(&bad).is_err());
        bad = good.clone();
        bad[8] = 3;
        assert!(parse_negotiate(&bad).is_err());
        // with payload
        let mut p = good.clone();
        p.extend_from_slice(b"DOMWKS");
        p[16..24].copy_from_slice(&[3, 0, 3, 0, 40, 0, 0, 0]);
        p[24..32].copy_from_slice(&[3, 0, 3, 0, 43, 0, 0, 0]);
        let n = parse_negotiate(&p).unwrap();
        assert_eq!((&n.domain[..], &n.workstation[..]), (&b"DOM"[..], &b"WKS"[..]));
        let mut q = p.clone();
        q[28] = 42; // overlap
        assert!(parse_negotiate(&q).unwrap_err().starts_with("field:"));
        q = p.clone();
        q[28] = 44; // beyond the end
        assert!(parse_negotiate(&q).unwrap_err().starts_with("field:"));
        q = p.clone();
        q[20] = 39; // inside the header
        assert!(parse_negotiate(&q).unwrap_err().starts_with("field:"));
        q = p.clone();
        q[18] = 4; // Len != MaxLen
        assert!(parse_negotiate(&q).unwrap_err().starts_with("field:"));
    }

    #[test]
    fn self_consistency_with_spec_shaped_client() {
        let neg_raw = nlmp_negotiate();
        let neg = parse_negotiate(&neg_raw).unwrap();
        let cfg = nlmp_cfg();
        let challenge = build_challenge(&neg, &cfg);
        let h = nt_hash("Password");
        let base = 0xe2088235u32 | NEG_TARGET_INFO;
        for (flags, with_mic, zeros) in [(base, true, 4), (base, true, 0), (base, false, 4), (base & !NEG_VERSION, true, 8), (base & !NEG_KEY_EXCH, true, 4), (base & !NEG_KEY_EXCH & !NEG_VERSION, false, 0)] {
            let raw = nlmp_authenticate(&neg_raw, &challenge, flags, with_mic, zeros);
            let auth = parse_authenticate(&raw).unwrap();
            assert_eq!(auth.mic.is_some(), with_mic);
            assert_eq!(auth.has_version, flags & NEG_VERSION != 0);
            assert_eq!(auth.workstation, utf16le("COMPUTER"));
            let v = verify_authenticate(&neg, &challenge, &cfg, &auth, &h).unwrap();
            assert_eq!((v.user.as_str(), v.domain.as_str(), v.mic_checked), ("User", "Domain", with_mic));
            assert_eq!(v.client_challenge, [0xaa; 8]);
            if flags & NEG_KEY_EXCH != 0 {
                assert_eq!(v.exported_session_key, [0x55; 16]);
            } else {
                assert_eq!(v.exported_session_key, v.session_base_key);
            }
            if zeros == 4 {
                assert_eq!(hex(&v.session_base_key), "8de40ccadbc14a82f15cb0ad0de95ca3");
            }
            assert!(verify_authenticate(&neg, &challenge, &cfg, &auth, &nt_hash("password")).unwrap_err().starts_with("ntproof:"));
        }
    }

    #[test]
    fn verify_names_the_failed_check() {
        let neg_raw = nlmp_negotiate();
        let neg = parse_negotiate(&neg_raw).unwrap();
        let cfg = nlmp_cfg();
        let challenge = build_challenge(&neg, &cfg);
        let h = nt_hash("Password");
        let raw = nlmp_authenticate(&neg_raw, &challenge, 0xe2088235 | NEG_TARGET_INFO, true, 4);
        let good = parse_authenticate(&raw).unwrap();
        let check = |f: &dyn Fn(&mut Authenticate), prefix: &str| {
            let mut a = good.clone();
            f(&mut a);
            let e = verify_authenticate(&neg, &challenge, &cfg, &a, &h).unwrap_err();
            assert!(e.starts_with(prefix), "{} does not start with {}", e, prefix);
        };
        check(&|a| a.nt_response[0] ^= 1, "ntproof:");
        check(&|a| a.nt_response[16] = 2, "temp:");
        check(&|a| a.nt_response[16 + 8] ^= 1, "ntproof:"); // no timestamp was sent, so only the proof covers it
        check(&|a| a.nt_response[16 + 24] = 1, "temp:");
        check(&|a| a.nt_response[16 + 28] ^= 1, "temp:");
        check(&|a| a.nt_response.push(0), "temp:");
        check(&|a| { let n = a.nt_response.len(); a.nt_response[n - 1] = 1 }, "temp:");
        check(&|a| a.nt_response.truncate(40), "temp:");
        check(&|a| a.nt_response[16 + 16] ^= 1, "ntproof:"); // client challenge is covered by the proof
        check(&|a| a.lm_response[0] ^= 1, "lm:");
        check(&|a| a.lm_response[23] ^= 1, "lm:");
        check(&|a| a.lm_response.pop().map(|_| ()).unwrap(), "lm:");
        check(&|a| a.encrypted_session_key.pop().map(|_| ()).unwrap(), "key:");
        check(&|a| a.encrypted_session_key[3] ^= 1, "mic:");
        check(&|a| a.mic.as_mut().unwrap()[15] ^= 1, "mic:");
        check(&|a| a.raw[62] ^= 1, "mic:");
        check(&|a| a.user.pop().map(|_| ()).unwrap(), "field:");
        check(&|a| a.user = vec![0x3d, 0xd8], "field:");
        check(&|a| a.user = utf16le("Usex"), "ntproof:");
        check(&|a| a.domain = utf16le("domain"), "ntproof:");
        check(&|a| { a.flags &= !NEG_KEY_EXCH }, "key:");
        // all-zero LM response is legal
        let mic_less = parse_authenticate(&nlmp_authenticate(&neg_raw, &challenge, 0xe2088235 | NEG_TARGET_INFO, false, 4)).unwrap();
        let mut a = mic_less.clone();
        a.lm_response = vec![0; 24];
        assert!(verify_authenticate(&neg, &challenge, &cfg, &a, &h).is_ok());
        // a challenge with a timestamp demands it back
        let mut cfg_t = cfg.clone();
        cfg_t.av_pairs.push((7, vec![1, 2, 3, 4, 5, 6, 7, 8]));
        assert!(verify_authenticate(&neg, &challenge, &cfg_t, &mic_less, &h).unwrap_err().starts_with("temp:"));
        // upper casing of the user name, not of the domain
        assert_eq!(ntowfv2(&h, "user", "Domain"), ntowfv2(&h, "USER", "Domain"));
        assert_ne!(ntowfv2(&h, "User", "Domain"), ntowfv2(&h, "User", "DOMAIN"));
    }

    #[test]
    fn authenticate_strictness() {
        let neg_raw = nlmp_negotiate();
        let neg = parse_negotiate(&neg_raw).unwrap();
        let challenge = build_challenge(&neg, &nlmp_cfg());
        let good = nlmp_authenticate(&neg_raw, &challenge, 0xe2088235 | NEG_TARGET_INFO, true, 4);
        let a = parse_authenticate(&good).unwrap();
        assert_eq!((a.payload_offset, a.mic_offset, a.has_version), (88, 72, true));
        let bad = |f: &dyn Fn(&mut Vec<u8>), what: &str| {
            let mut m = good.clone();
            f(&mut m);
            let e = parse_authenticate(&m);
            assert!(e.is_err(), "{} accepted", what);
        };
        bad(&|m| m.push(0), "trailing byte");
        bad(&|m| { m.pop(); }, "truncated");
        bad(&|m| m[7] = 1, "signature");
        bad(&|m| m[8] = 2, "type");
        bad(&|m| m[14] += 1, "MaxLen != Len");
        bad(&|m| m[16] -= 1, "LM offset one lower (into the MIC, then overlap/gap)");
        bad(&|m| m[16] = 60, "LM inside the header");
        bad(&|m| m[24] -= 1, "NT overlaps LM");
        bad(&|m| m[24] += 1, "NT leaves a gap and overlaps the domain");
        bad(&|m| { m[52] -= 1; m[54] -= 1 }, "shorter key leaves a trailing byte");
        bad(&|m| { m[52] += 1; m[54] += 1 }, "key beyond the end");
        bad(&|m| m.truncate(70), "fixed part cut");
        bad(&|m| { m.splice(72..72, [0u8; 4]); for t in 0..6 { m[16 + 8 * t] += 4 } }, "20 bytes between header and payload");
        // without MIC and version the payload starts at 64
        let plain = nlmp_authenticate(&neg_raw, &challenge, (0xe2088235 | NEG_TARGET_INFO) & !NEG_VERSION, false, 4);
        let a = parse_authenticate(&plain).unwrap();
        assert_eq!((a.payload_offset, a.mic, a.has_version), (64, None, false));
        // an empty field may carry any offset
        let mut m = good.clone();
        let ws = u16_at(&m, 44);
        let ws_off = u32_at(&m, 48) as usize;
        m.drain(ws_off..ws_off + ws);
        m[44..52].copy_from_slice(&[0, 0, 0, 0, 0xff, 0xff, 0xff, 0x7f]);
        let key_off = (u32_at(&m, 56) as usize - ws) as u32;
        m[56..60].copy_from_slice(&key_off.to_le_bytes());
        let a = parse_authenticate(&m).unwrap();
        assert!(a.workstation.is_empty());
        assert_eq!(a.encrypted_session_key.len(), 16);
    }

    #[test]
    fn seal_contexts() {
        let key = [7u8; 16];
        let (mut s, mut c) = (SealCtx::new(&key, true), SealCtx::new(&key, false));
        for (i, m) in [&b"one"[..], b"", b"three three three", &[0u8; 300]].iter().enumerate() {
            let w = c.seal(m);
            assert_eq!(w.len(), 16 + m.len());
            assert_eq!(u32_at(&w, 12), i as u32);
            // any single bit flip is rejected and leaves the receiver usable
            for bit in 0..w.len() * 8 {
                let mut f = w.clone();
                f[bit / 8] ^= 1 << (bit % 8);
                assert!(s.unseal(&f).is_err(), "bit {}", bit);
            }
            assert!(s.unseal(&w[..15]).unwrap_err().starts_with("short:"));
            assert_eq!(&s.unseal(&w).unwrap()[..], *m);
            assert!(s.unseal(&w).unwrap_err().starts_with("seq:")); // replay
            let back = s.seal(m);
            assert_eq!(&c.unseal(&back).unwrap()[..], *m);
        }
        assert_eq!((s.send_seq(), s.recv_seq(), c.send_seq(), c.recv_seq()), (4, 4, 4, 4));
        // direction keys differ
        let (mut s2, mut c2) = (SealCtx::new(&key, true), SealCtx::new(&key, false));
        let w = c2.seal(b"x");
        assert!(c2.unseal(&w).unwrap_err().starts_with("checksum:"));
        assert!(s2.unseal(&w).is_ok());
        // forced sequence number
        let w = c2.seal_with_seq(b"y", 9);
        assert_eq!(c2.send_seq(), 2);
        assert!(s2.unseal(&w).unwrap_err().starts_with("seq:"));
        let mut v = w.clone();
        v[0] = 2;
        assert!(s2.unseal(&v).unwrap_err().starts_with("version:"));
        // patching the sequence field alone breaks the MAC
        v = w.clone();
        v[12] = 1;
        assert!(s2.unseal(&v).unwrap_err().starts_with("checksum:"));
    }
}

impl SealCtx {
    /// Context from raw keys (for contexts that were not derived from an exported session key)
    pub fn from_keys(send_seal: &[u8], recv_seal: &[u8], send_sign: [u8; 16], recv_sign: [u8; 16]) -> SealCtx {
        SealCtx { send_rc4: Rc4::new(send_seal), recv_rc4: Rc4::new(recv_seal), send_sign, recv_sign, send_seq: 0, recv_seq: 0 }
    }
}
