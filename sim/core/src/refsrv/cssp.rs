//! CredSSP TSRequest / TSCredentials (MS-CSSP 2.2.1), DER.
//!
//! strict=true: DER lengths and integers, fields in ascending tag order without repetition, no unknown
//! tags, nothing left over anywhere. strict=false: BER length forms, any field order (last one wins),
//! unknown context tags and trailing bytes after the outer SEQUENCE are skipped.

use super::der::{self, Tlv};

const SEQUENCE: u8 = 0x30;
const INTEGER: u8 = 0x02;
const OCTET_STRING: u8 = 0x04;

#[derive(Clone, Debug, Default, PartialEq)]
pub struct TsRequest {
    pub version: u64,
    pub nego_tokens: Vec<Vec<u8>>,
    pub auth_info: Option<Vec<u8>>,
    pub pub_key_auth: Option<Vec<u8>>,
    pub error_code: Option<u64>,
    pub client_nonce: Option<Vec<u8>>,
}

fn expect(t: Tlv, tag: u8, what: &str) -> Result<Vec<u8>, String> {
    if t.tag != tag {
        return Err(format!("cssp: {} has tag {:#04x} instead of {:#04x}", what, t.tag, tag));
    }
    Ok(t.value)
}

/// `data` holds exactly one TLV (nothing after it when strict)
fn single(data: &[u8], strict: bool, what: &str) -> Result<Tlv, String> {
    let (t, used) = der::parse_tlv(data, strict).map_err(|e| format!("cssp: {}: {}", what, e))?;
    if strict && used != data.len() {
        return Err(format!("cssp: {} bytes left over after {}", data.len() - used, what));
    }
    Ok(t)
}

/// Body of a SEQUENCE of explicitly tagged fields -> (tag number, inner TLV) in order of appearance
fn tagged_fields(body: &[u8], strict: bool, what: &str) -> Result<Vec<(u8, Tlv)>, String> {
    let mut out: Vec<(u8, Tlv)> = Vec::new();
    for f in der::parse_seq(body, strict).map_err(|e| format!("cssp: {}: {}", what, e))? {
        if f.tag & 0xe0 != 0xa0 {
            return Err(format!("cssp: {}: field tag {:#04x} is not context-specific constructed", what, f.tag));
        }
        let n = f.tag & 0x1f;
        if strict && out.last().map_or(false, |(last, _)| *last >= n) {
            return Err(format!("cssp: {}: field [{}] out of order or repeated", what, n));
        }
        out.push((n, single(&f.value, strict, &format!("{} [{}]", what, n))?));
    }
    Ok(out)
}

pub fn parse_ts_request(data: &[u8], strict: bool) -> Result<TsRequest, String> {
    let mut r = TsRequest::default();
    let mut has_version = false;
    let body = expect(single(data, strict, "TSRequest")?, SEQUENCE, "TSRequest")?;
    for (n, inner) in tagged_fields(&body, strict, "TSRequest")? {
        match n {
            0 => {
                r.version = der::parse_uint(&expect(inner, INTEGER, "version")?, strict)?;
                has_version = true;
            }
            1 => {
                r.nego_tokens.clear();
                let list = expect(inner, SEQUENCE, "negoTokens")?;
                for item in der::parse_seq(&list, strict).map_err(|e| format!("cssp: negoTokens: {}", e))? {
                    let fields = tagged_fields(&expect(item, SEQUENCE, "NegoData item")?, strict, "NegoData item")?;
                    match fields.as_slice() {
                        [(0, token)] => r.nego_tokens.push(expect(token.clone(), OCTET_STRING, "negoToken")?),
                        _ => return Err("cssp: NegoData item is not { [0] OCTET STRING }".into()),
                    }
                }
            }
            2 => r.auth_info = Some(expect(inner, OCTET_STRING, "authInfo")?),
            3 => r.pub_key_auth = Some(expect(inner, OCTET_STRING, "pubKeyAuth")?),
            4 => r.error_code = Some(der::parse_uint(&expect(inner, INTEGER, "errorCode")?, strict)?),
            5 => r.client_nonce = Some(expect(inner, OCTET_STRING, "clientNonce")?),
            _ if strict => return Err(format!("cssp: TSRequest: unknown field [{}]", n)),
            _ => {}
        }
    }
    if !has_version {
        return Err("cssp: TSRequest without version".into());
    }
    Ok(r)
}

fn tagged(n: u8, inner: Vec<u8>) -> Vec<u8> {
    der::tlv(0xa0 | n, &inner)
}

pub fn build_ts_request(r: &TsRequest) -> Vec<u8> {
    let mut body = tagged(0, der::int(r.version));
    if !r.nego_tokens.is_empty() {
        let items: Vec<u8> = r.nego_tokens.iter().flat_map(|t| der::tlv(SEQUENCE, &tagged(0, der::tlv(OCTET_STRING, t)))).collect();
        body.extend(tagged(1, der::tlv(SEQUENCE, &items)));
    }
    if let Some(v) = &r.auth_info {
        body.extend(tagged(2, der::tlv(OCTET_STRING, v)));
    }
    if let Some(v) = &r.pub_key_auth {
        body.extend(tagged(3, der::tlv(OCTET_STRING, v)));
    }
    if let Some(v) = r.error_code {
        body.extend(tagged(4, der::int(v)));
    }
    if let Some(v) = &r.client_nonce {
        body.extend(tagged(5, der::tlv(OCTET_STRING, v)));
    }
    der::tlv(SEQUENCE, &body)
}

#[derive(Clone, Debug, PartialEq)]
pub struct TsCredentials {
    pub cred_type: u64,
    pub domain: Vec<u8>,
    pub user: Vec<u8>,
    pub password: Vec<u8>,
}

/// `data` is one SEQUENCE with exactly the fields [0]..[count-1], each once (in any order when not strict)
fn exactly(data: &[u8], strict: bool, count: u8, what: &str) -> Result<Vec<Tlv>, String> {
    let mut fields = tagged_fields(&expect(single(data, strict, what)?, SEQUENCE, what)?, strict, what)?;
    fields.sort_by_key(|(n, _)| *n);
    if fields.len() != count as usize || fields.iter().enumerate().any(|(i, (n, _))| *n as usize != i) {
        return Err(format!("cssp: {} must have exactly the fields [0]..[{}]", what, count - 1));
    }
    Ok(fields.into_iter().map(|(_, t)| t).collect())
}

pub fn parse_ts_credentials(data: &[u8], strict: bool) -> Result<TsCredentials, String> {
    let mut outer = exactly(data, strict, 2, "TSCredentials")?.into_iter();
    let cred_type = der::parse_uint(&expect(outer.next().unwrap(), INTEGER, "credType")?, strict)?;
    let creds = expect(outer.next().unwrap(), OCTET_STRING, "credentials")?;
    let mut inner = exactly(&creds, strict, 3, "TSPasswordCreds")?.into_iter();
    let mut next = |what: &str| expect(inner.next().unwrap(), OCTET_STRING, what);
    Ok(TsCredentials { cred_type, domain: next("domainName")?, user: next("userName")?, password: next("password")? })
}

#[cfg(test)]
mod tests {
    use super::*;
    use super::super::der::{tlv, tlv_long};

    fn full() -> TsRequest {
        TsRequest {
            version: 6,
            nego_tokens: vec![b"NTLMSSP\0token".to_vec(), vec![], vec![0x5a; 300]],
            auth_info: Some(vec![1; 130]),
            pub_key_auth: Some(vec![2; 40]),
            error_code: Some(0xc000006d),
            client_nonce: Some(vec![3; 32]),
        }
    }

    #[test]
    fn known_encoding() {
        let r = TsRequest { version: 2, nego_tokens: vec![vec![0xaa, 0xbb]], ..Default::default() };
        let e = build_ts_request(&r);
        assert_eq!(e, vec![0x30, 0x11, 0xa0, 0x03, 0x02, 0x01, 0x02, 0xa1, 0x0a, 0x30, 0x08, 0x30, 0x06, 0xa0, 0x04, 0x04, 0x02, 0xaa, 0xbb]);
        assert_eq!(parse_ts_request(&e, true).unwrap(), r);
        let r = TsRequest { version: 5, pub_key_auth: Some(vec![9]), error_code: Some(1), ..Default::default() };
        assert_eq!(build_ts_request(&r), vec![0x30, 0x0f, 0xa0, 0x03, 0x02, 0x01, 0x05, 0xa3, 0x03, 0x04, 0x01, 0x09, 0xa4, 0x03, 0x02, 0x01, 0x01]);
    }

    #[test]
    fn round_trip() {
        for r in [full(), TsRequest { version: 2, ..Default::default() }, TsRequest { version: 3, auth_info: Some(vec![]), ..Default::default() }] {
            let e = build_ts_request(&r);
            assert_eq!(parse_ts_request(&e, true).unwrap(), r);
            assert_eq!(parse_ts_request(&e, false).unwrap(), r);
            assert_eq!(build_ts_request(&parse_ts_request(&e, true).unwrap()), e);
        }
    }

    #[test]
    fn strict_rejections() {
        let r = TsRequest { version: 2, nego_tokens: vec![vec![0xaa; 5]], pub_key_auth: Some(vec![7; 4]), ..Default::default() };
        let good = build_ts_request(&r);
        // trailing bytes
        let mut t = good.clone();
        t.push(0);
        assert!(parse_ts_request(&t, true).is_err());
        assert_eq!(parse_ts_request(&t, false).unwrap(), r);
        // truncated
        assert!(parse_ts_request(&good[..good.len() - 1], false).is_err());
        // non-minimal length at every nesting level
        let token = |w: Option<usize>| match w { Some(w) => tlv_long(OCTET_STRING, &[0xaa; 5], w), None => tlv(OCTET_STRING, &[0xaa; 5]) };
        let wrap = |tag: u8, v: &[u8], w: Option<usize>| match w { Some(w) => tlv_long(tag, v, w), None => tlv(tag, v) };
        for level in 0..7 {
            let w = |l: usize| if l == level { Some(2) } else { None };
            let nego = wrap(0xa1, &wrap(SEQUENCE, &wrap(SEQUENCE, &wrap(0xa0, &token(w(0)), w(1)), w(2)), w(3)), w(4));
            let mut body = wrap(0xa0, &der::int(2), w(5));
            body.extend(nego);
            body.extend(tagged(3, tlv(OCTET_STRING, &[7; 4])));
            let e = wrap(SEQUENCE, &body, w(6));
            assert!(parse_ts_request(&e, true).is_err(), "level {}", level);
            assert_eq!(parse_ts_request(&e, false).unwrap(), r, "level {}", level);
        }
        let seq = |parts: &[Vec<u8>]| tlv(SEQUENCE, &parts.concat());
        let v = tagged(0, der::int(2));
        let p = tagged(3, tlv(OCTET_STRING, &[7; 4]));
        let n = tagged(5, tlv(OCTET_STRING, &[1; 32]));
        assert!(parse_ts_request(&seq(&[v.clone(), p.clone(), n.clone()]), true).is_ok());
        // order, repetition, unknown tag, missing version
        assert!(parse_ts_request(&seq(&[v.clone(), n.clone(), p.clone()]), true).is_err());
        assert!(parse_ts_request(&seq(&[v.clone(), n.clone(), p.clone()]), false).is_ok());
        assert!(parse_ts_request(&seq(&[v.clone(), p.clone(), p.clone()]), true).is_err());
        assert!(parse_ts_request(&seq(&[v.clone(), tagged(6, tlv(OCTET_STRING, &[1]))]), true).is_err());
        assert!(parse_ts_request(&seq(&[v.clone(), tagged(6, tlv(OCTET_STRING, &[1]))]), false).is_ok());
        assert!(parse_ts_request(&seq(&[p.clone()]), true).is_err());
        assert!(parse_ts_request(&seq(&[p.clone()]), false).is_err());
        // wrong universal types, non-minimal integer, two values under one tag, wrong outer tag
        assert!(parse_ts_request(&seq(&[tagged(0, tlv(OCTET_STRING, &[2]))]), false).is_err());
        assert!(parse_ts_request(&seq(&[v.clone(), tagged(3, der::int(1))]), false).is_err());
        assert!(parse_ts_request(&seq(&[tagged(0, tlv(INTEGER, &[0, 2]))]), true).is_err());
        assert_eq!(parse_ts_request(&seq(&[tagged(0, tlv(INTEGER, &[0, 2]))]), false).unwrap().version, 2);
        assert!(parse_ts_request(&seq(&[tagged(0, [der::int(2), der::int(3)].concat())]), true).is_err());
        assert!(parse_ts_request(&tlv(0x31, &v), true).is_err());
        assert!(parse_ts_request(&seq(&[v.clone(), tlv(0x83, &[1])]), true).is_err());
        // NegoData item shape
        let item = |inner: Vec<u8>| seq(&[v.clone(), tagged(1, tlv(SEQUENCE, &tlv(SEQUENCE, &inner)))]);
        assert!(parse_ts_request(&item(tagged(0, tlv(OCTET_STRING, b"x"))), true).is_ok());
        assert!(parse_ts_request(&item(tagged(1, tlv(OCTET_STRING, b"x"))), true).is_err());
        assert!(parse_ts_request(&item(tagged(0, der::int(1))), true).is_err());
        assert!(parse_ts_request(&item(Vec::new()), true).is_err());
        assert!(parse_ts_request(&item([tagged(0, tlv(OCTET_STRING, b"x")), tagged(1, tlv(OCTET_STRING, b"y"))].concat()), true).is_err());
    }

    fn creds(cred_type: u64, d: &[u8], u: &[u8], p: &[u8]) -> Vec<u8> {
        let pw = tlv(SEQUENCE, &[tagged(0, tlv(OCTET_STRING, d)), tagged(1, tlv(OCTET_STRING, u)), tagged(2, tlv(OCTET_STRING, p))].concat());
        tlv(SEQUENCE, &[tagged(0, der::int(cred_type)), tagged(1, tlv(OCTET_STRING, &pw))].concat())
    }

    #[test]
    fn credentials() {
        let e = creds(1, b"d\0o\0", b"u\0", b"");
        let c = parse_ts_credentials(&e, true).unwrap();
        assert_eq!(c, TsCredentials { cred_type: 1, domain: b"d\0o\0".to_vec(), user: b"u\0".to_vec(), password: vec![] });
        let mut t = e.clone();
        t.push(0);
        assert!(parse_ts_credentials(&t, true).is_err());
        assert!(parse_ts_credentials(&e[..e.len() - 1], false).is_err());
        // missing password field
        let pw = tlv(SEQUENCE, &[tagged(0, tlv(OCTET_STRING, b"d")), tagged(1, tlv(OCTET_STRING, b"u"))].concat());
        let m = tlv(SEQUENCE, &[tagged(0, der::int(1)), tagged(1, tlv(OCTET_STRING, &pw))].concat());
        assert!(parse_ts_credentials(&m, false).is_err());
        // trailing bytes inside the credentials OCTET STRING
        let pw = [tlv(SEQUENCE, &[tagged(0, tlv(OCTET_STRING, b"d")), tagged(1, tlv(OCTET_STRING, b"u")), tagged(2, tlv(OCTET_STRING, b"p"))].concat()), vec![0]].concat();
        let m = tlv(SEQUENCE, &[tagged(0, der::int(1)), tagged(1, tlv(OCTET_STRING, &pw))].concat());
        assert!(parse_ts_credentials(&m, true).is_err());
        assert_eq!(parse_ts_credentials(&m, false).unwrap().password, b"p");
        // long credentials
        let big = creds(1, &[1; 200], &[2; 300], &[3; 70000]);
        let c = parse_ts_credentials(&big, true).unwrap();
        assert_eq!((c.domain.len(), c.user.len(), c.password.len()), (200, 300, 70000));
    }
}
