//! Byzantine mutators over a message with a field map (DESIGN 2.5).

use super::bytes::{Field, Wr};
use crate::tape::Ctx;

#[derive(Clone, Debug, PartialEq)]
pub enum After {
    Nothing,
    Fin,
    Silence,
}

pub struct Mutated {
    pub bytes: Vec<u8>,
    pub after: After,
    /// (kind, site, value class) for distinct counting and for the log
    pub kind: &'static str,
    pub desc: String,
}

const B16: [u32; 19] = [0, 1, 2, 3, 4, 5, 6, 7, 8, 17, 18, 0x7f, 0x80, 0xff, 0x100, 0x7fff, 0x8000, 0xfffe, 0xffff];
const B32: [u32; 3] = [0x7fffffff, 0x80000000, 0xffffffff];

fn read_field(buf: &[u8], f: &Field) -> u32 {
    let mut v: u32 = 0;
    for i in 0..f.width {
        let b = buf[f.off + i] as u32;
        if f.be { v = (v << 8) | b; } else { v |= b << (8 * i); }
    }
    v
}

fn write_field(buf: &mut [u8], f: &Field, v: u32) {
    for i in 0..f.width {
        let b = if f.be { (v >> (8 * (f.width - 1 - i))) as u8 } else { (v >> (8 * i)) as u8 };
        buf[f.off + i] = b;
    }
}

fn field_value(ctx: &mut Ctx, f: &Field, real: u32, msg_len: usize) -> (u32, String) {
    match f.width {
        1 => {
            let v = ctx.choose("mut_u8", 256) as u32;
            (v, "u8".to_string())
        }
        2 | 4 => {
            let classes = if f.width == 2 { 6 } else { 7 };
            match ctx.choose("mut_class", classes) {
                0 => { let v = B16[ctx.choose("mut_b16", B16.len() as u64) as usize]; (v, format!("b{:#x}", v)) }
                1 => (real.wrapping_add(1), "real+1".into()),
                2 => (real.wrapping_sub(1), "real-1".into()),
                3 => { let d = ctx.choose("mut_hdr", 3) as u32; ((f.width as u32 + 2 + d).wrapping_sub(1), "hdr".into()) }
                4 => { let v = ctx.choose("mut_rand", if f.width == 2 { 65536 } else { 1 << 32 }) as u32; (v, "random".into()) }
                5 => ((msg_len as u32).wrapping_add(ctx.choose("mut_len_d", 3) as u32).wrapping_sub(1), "msglen".into()),
                _ => { let v = B32[ctx.choose("mut_b32", 3) as usize]; (v, format!("b{:#x}", v)) }
            }
        }
        _ => (real, "same".into()),
    }
}

/// one mutation of a message, chosen by the tape
pub fn mutate(ctx: &mut Ctx, name: &str, w: &Wr) -> Mutated {
    let mut bytes = w.buf.clone();
    let n = bytes.len();
    if n == 0 {
        return Mutated { bytes, after: After::Nothing, kind: "none", desc: "empty".into() };
    }
    let kind = ctx.choose("mut_kind", 16);
    if kind >= 13 {
        // bytes inserted, removed or repeated in the middle of the message: everything behind moves
        let orig = bytes.clone();
        let extent = |w: &Wr, fi: usize| -> (usize, usize) {
            let f = &w.fields[fi];
            let end = if f.width > 0 { f.off + f.width } else { w.fields.get(fi + 1).map(|g| g.off).unwrap_or(n) };
            (f.off, end.max(f.off))
        };
        let (k, desc): (&'static str, String) = match kind {
            13 => {
                let at = if !w.fields.is_empty() && ctx.chance("ins_at_field", 3, 4) { w.fields[ctx.choose("mut_field", w.fields.len() as u64) as usize].off } else { ctx.choose("mut_pos", n as u64 + 1) as usize };
                let count = *ctx.pick("ins_count", &[1usize, 1, 2, 3, 4, 8, 16, 64, 300]);
                let fill: Vec<u8> = match ctx.choose("ins_fill", 4) {
                    0 => vec![0x00; count],
                    1 => vec![0xff; count],
                    2 => vec![0x80; count],
                    _ => { let g = ctx.bytes("ins_bytes", count.min(8)); g.iter().cycle().take(count).cloned().collect() }
                };
                bytes.splice(at..at, fill);
                ("insert", format!("{} +{}@{}", name, count, at))
            }
            14 => {
                let (a, b) = if !w.fields.is_empty() && ctx.chance("del_field", 3, 4) { extent(w, ctx.choose("mut_field", w.fields.len() as u64) as usize) } else { let a = ctx.choose("mut_pos", n as u64) as usize; (a, (a + 1 + ctx.choose("del_count", 8) as usize).min(n)) };
                bytes.drain(a..b);
                ("delete", format!("{} -[{}..{})", name, a, b))
            }
            _ => {
                let (a, b) = if !w.fields.is_empty() { extent(w, ctx.choose("mut_field", w.fields.len() as u64) as usize) } else { let a = ctx.choose("mut_pos", n as u64) as usize; (a, (a + 1 + ctx.choose("del_count", 8) as usize).min(n)) };
                let times = *ctx.pick("dup_times", &[1usize, 1, 2, 3, 50]);
                let piece: Vec<u8> = bytes[a..b].to_vec();
                if piece.len() * times <= 40_000 {
                    let rep: Vec<u8> = piece.iter().cycle().take(piece.len() * times).cloned().collect();
                    bytes.splice(b..b, rep);
                }
                ("repeat_field", format!("{} [{}..{}) x{}", name, a, b, times + 1))
            }
        };
        if ctx.chance("fix_outer_length", 3, 4) { fix_outer_length(&mut bytes, &orig); }
        return Mutated { bytes, after: After::Nothing, kind: k, desc };
    }
    if kind == 12 {
        // the length of one BER/DER element re-encoded in a hostile form (C05: connect response; C07: TSRequest)
        let start = if w.fields.first().map(|f| f.name.starts_with("der.")).unwrap_or(false) {
            Some(0)
        } else {
            w.fields.iter().find(|f| f.name == "cr.tag0").map(|f| f.off)
        };
        if let Some(start) = start {
            if let Some((attacked, desc)) = tlv_length_attack(ctx, &bytes[start..]) {
                let mut out = bytes[..start].to_vec();
                out.extend_from_slice(&attacked);
                if start >= 4 && out[0] == 3 && out.len() <= 0xffff && ctx.chance("tlv_fix_tpkt", 3, 4) {
                    out[2] = (out.len() >> 8) as u8;
                    out[3] = out.len() as u8;
                }
                return Mutated { bytes: out, after: After::Nothing, kind: "tlv_length", desc: format!("{} {}", name, desc) };
            }
        }
        let bit = ctx.choose("mut_bit", (n * 8) as u64) as usize;
        bytes[bit / 8] ^= 1 << (bit % 8);
        return Mutated { bytes, after: After::Nothing, kind: "bitflip", desc: format!("{} bit {}", name, bit) };
    }
    match kind {
        0 | 1 | 2 | 3 | 4 => {
            // set one field (numeric field, or a byte inside an opaque field)
            let fi = ctx.choose("mut_field", w.fields.len().max(1) as u64) as usize;
            if w.fields.is_empty() {
                let p = ctx.choose("mut_pos", n as u64) as usize;
                bytes[p] = ctx.choose("mut_u8", 256) as u8;
                return Mutated { bytes, after: After::Nothing, kind: "byte_set", desc: format!("{}[{}]", name, p) };
            }
            let f = w.fields[fi].clone();
            if f.width == 0 {
                // opaque bytes: find its extent (up to the next field)
                let end = w.fields.get(fi + 1).map(|g| g.off).unwrap_or(n);
                if end > f.off {
                    let p = f.off + ctx.choose("mut_pos", (end - f.off) as u64) as usize;
                    bytes[p] = ctx.choose("mut_u8", 256) as u8;
                    return Mutated { bytes, after: After::Nothing, kind: "field_set", desc: format!("{}.{}[+{}]", name, f.name, p - f.off) };
                }
                return Mutated { bytes, after: After::Nothing, kind: "none", desc: "empty-field".into() };
            }
            let real = read_field(&bytes, &f);
            let (v, class) = field_value(ctx, &f, real, n);
            write_field(&mut bytes, &f, v);
            Mutated { bytes, after: After::Nothing, kind: "field_set", desc: format!("{}.{}={}", name, f.name, class) }
        }
        5 => {
            // two fields
            let mut desc = String::new();
            for _ in 0..2 {
                if w.fields.is_empty() { break; }
                let fi = ctx.choose("mut_field", w.fields.len() as u64) as usize;
                let f = w.fields[fi].clone();
                if f.width == 0 { continue; }
                let real = read_field(&bytes, &f);
                let (v, class) = field_value(ctx, &f, real, n);
                write_field(&mut bytes, &f, v);
                desc.push_str(&format!("{}.{}={} ", name, f.name, class));
            }
            Mutated { bytes, after: After::Nothing, kind: "field_pair", desc }
        }
        6 | 7 => {
            let at = ctx.choose("mut_trunc", n as u64) as usize;
            bytes.truncate(at);
            let after = if kind == 6 { After::Fin } else { After::Silence };
            Mutated { bytes, after, kind: if kind == 6 { "truncate_eof" } else { "truncate_silence" }, desc: format!("{}@{}", name, at) }
        }
        8 => {
            let k = 1 + ctx.choose("mut_ext", 40) as usize;
            let g = ctx.bytes("mut_ext_b", k.min(8));
            bytes.extend(g.iter().cycle().take(k));
            Mutated { bytes, after: After::Nothing, kind: "extend", desc: format!("{}+{}", name, k) }
        }
        9 => {
            let bit = ctx.choose("mut_bit", (n * 8) as u64) as usize;
            bytes[bit / 8] ^= 1 << (bit % 8);
            Mutated { bytes, after: After::Nothing, kind: "bitflip", desc: format!("{} bit {}", name, bit) }
        }
        10 => {
            let k = 1 + ctx.choose("mut_smear_k", 8) as usize;
            for _ in 0..k {
                let p = ctx.choose("mut_pos", n as u64) as usize;
                bytes[p] = ctx.choose("mut_u8", 256) as u8;
            }
            Mutated { bytes, after: After::Nothing, kind: "smear", desc: format!("{} x{}", name, k) }
        }
        _ => {
            match ctx.choose("mut_msg", 3) {
                0 => Mutated { bytes: Vec::new(), after: After::Nothing, kind: "drop", desc: name.to_string() },
                1 => { let mut b = bytes.clone(); b.extend_from_slice(&bytes); Mutated { bytes: b, after: After::Nothing, kind: "duplicate", desc: name.to_string() } }
                _ => {
                    // all short byte strings / pure garbage instead of the message
                    let k = ctx.choose("mut_garbage_len", 9) as usize;
                    let g = ctx.bytes("mut_garbage", k);
                    Mutated { bytes: g, after: After::Nothing, kind: "replace_garbage", desc: format!("{} -> {} bytes", name, k) }
                }
            }
        }
    }
}

/// after a mutation that changed the size of a message: rewrite the outermost length (TPKT, or the fast-path length
/// in the form the original used) so that the reader takes in the whole mutated message
fn fix_outer_length(bytes: &mut Vec<u8>, orig: &[u8]) {
    let n = bytes.len();
    if orig.len() >= 4 && bytes.len() >= 4 && orig[0] == 3 && bytes[0] == 3 && ((orig[2] as usize) << 8 | orig[3] as usize) == orig.len() {
        if n <= 0xffff { bytes[2] = (n >> 8) as u8; bytes[3] = n as u8; }
        return;
    }
    if orig.len() >= 3 && bytes.len() >= 3 && orig[0] & 3 == 0 && orig[0] == bytes[0] {
        if orig[1] & 0x80 != 0 && (((orig[1] & 0x7f) as usize) << 8 | orig[2] as usize) == orig.len() {
            if n <= 0x7fff { bytes[1] = 0x80 | (n >> 8) as u8; bytes[2] = n as u8; }
        } else if orig[1] as usize == orig.len() && n < 0x80 {
            bytes[1] = n as u8;
        }
    }
}

// ---------------------------------------------------------------------------------------- BER/DER lengths

#[derive(Clone)]
struct Tlv {
    ident: Vec<u8>,
    len_octets: Vec<u8>,
    children: Option<Vec<Tlv>>,
    leaf: Vec<u8>,
}

fn parse_tlvs(data: &[u8], depth: usize) -> Option<Vec<Tlv>> {
    let mut out = Vec::new();
    let mut pos = 0;
    while pos < data.len() {
        let t0 = pos;
        let first = data[pos];
        pos += 1;
        if first & 0x1f == 0x1f {
            while pos < data.len() && data[pos] & 0x80 != 0 { pos += 1; }
            pos += 1;
        }
        if pos >= data.len() { return None; }
        let ident = data[t0..pos].to_vec();
        let l0 = data[pos];
        let lstart = pos;
        pos += 1;
        let len = if l0 & 0x80 == 0 { l0 as usize } else {
            let n = (l0 & 0x7f) as usize;
            if n == 0 || n > 4 || pos + n > data.len() { return None; }
            let mut v = 0usize;
            for i in 0..n { v = (v << 8) | data[pos + i] as usize; }
            pos += n;
            v
        };
        let len_octets = data[lstart..pos].to_vec();
        if pos + len > data.len() { return None; }
        let body = &data[pos..pos + len];
        pos += len;
        let children = if first & 0x20 != 0 && depth < 12 { parse_tlvs(body, depth + 1) } else { None };
        let leaf = if children.is_some() { Vec::new() } else { body.to_vec() };
        out.push(Tlv { ident, len_octets, children, leaf });
    }
    Some(out)
}

fn count_tlvs(nodes: &[Tlv]) -> usize {
    nodes.iter().map(|n| 1 + n.children.as_ref().map(|c| count_tlvs(c)).unwrap_or(0)).sum()
}

fn minimal_len(n: usize) -> Vec<u8> {
    if n < 0x80 { vec![n as u8] } else if n < 0x100 { vec![0x81, n as u8] } else if n < 0x10000 { vec![0x82, (n >> 8) as u8, n as u8] } else { vec![0x83, (n >> 16) as u8, (n >> 8) as u8, n as u8] }
}

/// serialises the forest; the element number `target` (pre-order) gets `hostile` as its length octets; with `fixup`
/// the lengths of its ancestors are recomputed so that the hostile header is exactly where a parser expects one
fn serialise_tlvs(nodes: &[Tlv], target: usize, hostile: &[u8], fixup: bool, counter: &mut usize, real_len: &mut usize) -> Vec<u8> {
    let mut out = Vec::new();
    for n in nodes {
        let me = *counter;
        *counter += 1;
        let content = match &n.children {
            Some(c) => serialise_tlvs(c, target, hostile, fixup, counter, real_len),
            None => n.leaf.clone(),
        };
        out.extend_from_slice(&n.ident);
        if me == target {
            *real_len = content.len();
            out.extend_from_slice(hostile);
        } else {
            let orig_len = {
                let l = &n.len_octets;
                if l[0] & 0x80 == 0 { l[0] as usize } else { l[1..].iter().fold(0usize, |a, b| (a << 8) | *b as usize) }
            };
            if !fixup || orig_len == content.len() { out.extend_from_slice(&n.len_octets); } else { out.extend_from_slice(&minimal_len(content.len())); }
        }
        out.extend_from_slice(&content);
    }
    out
}

/// one element of a BER/DER message gets its length re-encoded: long forms of 1..127 octets carrying the real value, its
/// neighbours, all ones, the top bit, values that make `position + length` wrap around 2^64 or 2^32, the indefinite
/// form and the reserved octet 0xFF
pub fn tlv_length_attack(ctx: &mut Ctx, data: &[u8]) -> Option<(Vec<u8>, String)> {
    let forest = parse_tlvs(data, 0)?;
    let total = count_tlvs(&forest);
    if total == 0 { return None; }
    let target = ctx.choose("tlv_target", total as u64) as usize;
    // the honest length of the target, for the "real" classes
    let mut real = 0usize;
    {
        let mut c = 0usize;
        let _ = serialise_tlvs(&forest, target, &[0], false, &mut c, &mut real);
    }
    if ctx.chance("tlv_leaf_resize", 1, 5) {
        // a primitive element (INTEGER, ENUMERATED, BOOLEAN, OCTET STRING) gets another size, lengths kept consistent
        fn leaves(nodes: &mut [Tlv], out: &mut Vec<*mut Tlv>) {
            for n in nodes.iter_mut() {
                if n.children.is_some() { leaves(n.children.as_mut().unwrap(), out); } else { out.push(n as *mut Tlv); }
            }
        }
        let mut forest = forest;
        let mut ls = Vec::new();
        leaves(&mut forest, &mut ls);
        if !ls.is_empty() {
            let li = ctx.choose("tlv_leaf", ls.len() as u64) as usize;
            let size = *ctx.pick("tlv_leaf_size", &[0usize, 1, 2, 3, 4, 5, 8, 9, 16, 17, 127, 128, 255, 256, 70000]);
            let fill = *ctx.pick("tlv_leaf_fill", &[0x00u8, 0xff, 0x80, 0x7f, 0x01]);
            // the pointers come from the forest just above and nothing else touches it meanwhile
            unsafe { (*ls[li]).leaf = vec![fill; size]; }
            let mut c = 0usize;
            let mut r = 0usize;
            let out = serialise_tlvs(&forest, usize::MAX, &[], true, &mut c, &mut r);
            return Some((out, format!("leaf#{} resized to {} x {:#04x}", li, size, fill)));
        }
        return None;
    }
    let n = *ctx.pick("tlv_octets", &[1usize, 2, 3, 4, 5, 7, 8, 8, 8, 8, 9, 16, 126, 127]);
    let class = ctx.choose("tlv_value_class", 10);
    let (value, cname): (u128, &str) = match class {
        0 => (real as u128, "real"),
        1 => (real as u128 + 1, "real+1"),
        2 => (u128::MAX, "all-ones"),
        3 => (1u128 << ((8 * n.min(16)) - 1), "top-bit"),
        4 => ((1u128 << 64) - 1 - ctx.choose("tlv_wrap64", (data.len() + 24) as u64) as u128, "wrap-2^64"),
        5 => ((1u128 << 32) - 1 - ctx.choose("tlv_wrap32", (data.len() + 24) as u64) as u128, "wrap-2^32"),
        6 => (data.len() as u128 + ctx.choose("tlv_msglen", 3) as u128, "message-length"),
        7 => ((1u128 << 63) - 1 + ctx.choose("tlv_2_63", 3) as u128, "2^63"),
        8 => ((1u128 << 31) - 1 + ctx.choose("tlv_2_31", 3) as u128, "2^31"),
        _ => (0, "indefinite"),
    };
    let hostile: Vec<u8> = if class == 9 {
        vec![0x80]
    } else {
        let mut h = vec![0x80 | n as u8];
        for i in (0..n).rev() {
            h.push(if i >= 16 { 0 } else { (value >> (8 * i)) as u8 });
        }
        h
    };
    let fixup = ctx.chance("tlv_fixup", 3, 4);
    let mut c = 0usize;
    let mut r = 0usize;
    let out = serialise_tlvs(&forest, target, &hostile, fixup, &mut c, &mut r);
    Some((out, format!("element#{} length as {} octets {}{}", target, if class == 9 { 0 } else { n }, cname, if fixup { " (ancestors fixed)" } else { "" })))
}

/// field map of an NTLM CHALLENGE_MESSAGE (for C07)
pub fn challenge_fieldmap(msg: &[u8]) -> Wr {
    let mut w = Wr::new();
    let mut pos = 0usize;
    let take = |w: &mut Wr, name: &'static str, width: usize, pos: &mut usize| {
        if *pos + width.max(1) > msg.len() && width > 0 { return; }
        match width {
            2 => { w.u16le(name, u16::from_le_bytes([msg[*pos], msg[*pos + 1]])); }
            4 => { w.u32le(name, u32::from_le_bytes([msg[*pos], msg[*pos + 1], msg[*pos + 2], msg[*pos + 3]])); }
            _ => {}
        }
        *pos += width;
    };
    if msg.len() < 48 {
        w.bytes("challenge.raw", msg);
        return w;
    }
    w.bytes("challenge.signature", &msg[0..8]);
    pos = 8;
    take(&mut w, "challenge.messageType", 4, &mut pos);
    take(&mut w, "challenge.targetNameLen", 2, &mut pos);
    take(&mut w, "challenge.targetNameMaxLen", 2, &mut pos);
    take(&mut w, "challenge.targetNameOffset", 4, &mut pos);
    take(&mut w, "challenge.flags", 4, &mut pos);
    w.bytes("challenge.serverChallenge", &msg[pos..pos + 8]);
    pos += 8;
    w.bytes("challenge.reserved", &msg[pos..pos + 8]);
    pos += 8;
    take(&mut w, "challenge.targetInfoLen", 2, &mut pos);
    take(&mut w, "challenge.targetInfoMaxLen", 2, &mut pos);
    take(&mut w, "challenge.targetInfoOffset", 4, &mut pos);
    let flags = u32::from_le_bytes([msg[20], msg[21], msg[22], msg[23]]);
    if flags & 0x02000000 != 0 && msg.len() >= 56 {
        w.bytes("challenge.version", &msg[pos..pos + 8]);
        pos += 8;
    }
    // payload: walk AV pairs where the target info lies, the rest stays opaque
    let ti_off = u32::from_le_bytes([msg[44], msg[45], msg[46], msg[47]]) as usize;
    let ti_len = u16::from_le_bytes([msg[40], msg[41]]) as usize;
    if ti_off >= pos && ti_off + ti_len <= msg.len() {
        if ti_off > pos {
            w.bytes("challenge.payload.pre", &msg[pos..ti_off]);
        }
        let mut p = ti_off;
        while p + 4 <= ti_off + ti_len {
            let l = u16::from_le_bytes([msg[p + 2], msg[p + 3]]) as usize;
            w.u16le("challenge.av.id", u16::from_le_bytes([msg[p], msg[p + 1]]));
            w.u16le("challenge.av.len", l as u16);
            let end = (p + 4 + l).min(ti_off + ti_len);
            w.bytes("challenge.av.value", &msg[p + 4..end]);
            p = end;
        }
        if ti_off + ti_len < msg.len() {
            w.bytes("challenge.payload.post", &msg[ti_off + ti_len..]);
        }
    } else {
        w.bytes("challenge.payload", &msg[pos..]);
    }
    w
}

/// field map of a DER structure: every tag and length octet is an 8-bit field, leaves are opaque
pub fn der_fieldmap(data: &[u8]) -> Wr {
    fn walk(w: &mut Wr, data: &[u8], depth: usize) {
        let mut pos = 0;
        while pos < data.len() {
            let tag = data[pos];
            if pos + 1 >= data.len() {
                w.bytes("der.tail", &data[pos..]);
                return;
            }
            let l0 = data[pos + 1];
            let (len, hdr) = if l0 & 0x80 == 0 { (l0 as usize, 2) } else {
                let n = (l0 & 0x7f) as usize;
                if n == 0 || n > 3 || pos + 2 + n > data.len() {
                    w.bytes("der.tail", &data[pos..]);
                    return;
                }
                let mut v = 0usize;
                for i in 0..n { v = (v << 8) | data[pos + 2 + i] as usize; }
                (v, 2 + n)
            };
            w.u8("der.tag", tag);
            for i in 1..hdr { w.u8("der.len", data[pos + i]); }
            let end = (pos + hdr + len).min(data.len());
            let body = &data[pos + hdr..end];
            if tag & 0x20 != 0 && depth < 8 {
                walk(w, body, depth + 1);
            } else {
                w.bytes("der.value", body);
            }
            pos = end;
        }
    }
    let mut w = Wr::new();
    walk(&mut w, data, 0);
    if w.buf != data {
        let mut w2 = Wr::new();
        w2.bytes("der.raw", data);
        return w2;
    }
    w
}
