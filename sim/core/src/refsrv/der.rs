//! Minimal DER/BER TLV codec (X.690), single-byte tags and definite lengths only.

#[derive(Clone, Debug, PartialEq)]
pub struct Tlv {
    pub tag: u8,
    pub value: Vec<u8>,
    pub header_len: usize,
}

/// Decode identifier + length octets. Ok(None) when more bytes are needed to finish the header,
/// otherwise Ok(Some((header_len, value_len))).
fn parse_header(data: &[u8], strict: bool) -> Result<Option<(usize, usize)>, String> {
    if data.is_empty() {
        return Ok(None);
    }
    if data[0] & 0x1f == 0x1f {
        return Err(format!("der: multi-byte tag {:#04x} unsupported", data[0]));
    }
    if data.len() < 2 {
        return Ok(None);
    }
    let b = data[1];
    if b < 0x80 {
        return Ok(Some((2, b as usize)));
    }
    if b == 0x80 {
        return Err("der: indefinite length".into());
    }
    if b == 0xff {
        return Err("der: reserved length octet 0xff".into());
    }
    let n = (b & 0x7f) as usize;
    if data.len() < 2 + n {
        return Ok(None);
    }
    let octets = &data[2..2 + n];
    if strict && octets[0] == 0 {
        return Err("der: length has leading zero octets".into());
    }
    let mut len: usize = 0;
    for &o in octets {
        if len > (usize::MAX >> 8) {
            return Err("der: length overflow".into());
        }
        len = (len << 8) | o as usize;
    }
    if strict && len < 0x80 {
        return Err("der: long form used for a length below 128".into());
    }
    Ok(Some((2 + n, len)))
}

/// Parse one TLV at the start of `data`. Returns (tlv, total bytes consumed).
/// strict=true demands DER: definite length in minimal form. Only single-byte tags (tag number < 31).
pub fn parse_tlv(data: &[u8], strict: bool) -> Result<(Tlv, usize), String> {
    let (header_len, len) = parse_header(data, strict)?.ok_or_else(|| "der: truncated header".to_string())?;
    let total = header_len.checked_add(len).ok_or_else(|| "der: length overflow".to_string())?;
    if data.len() < total {
        return Err(format!("der: truncated value (tag {:#04x}: need {} bytes, have {})", data[0], len, data.len() - header_len));
    }
    Ok((Tlv { tag: data[0], value: data[header_len..total].to_vec(), header_len }, total))
}

/// Parse all TLVs in `data` back to back (children of a constructed value).
pub fn parse_seq(data: &[u8], strict: bool) -> Result<Vec<Tlv>, String> {
    let mut out = Vec::new();
    let mut pos = 0;
    while pos < data.len() {
        let (t, used) = parse_tlv(&data[pos..], strict)?;
        out.push(t);
        pos += used;
    }
    Ok(out)
}

/// DER length encoding (minimal)
pub fn enc_len(n: usize) -> Vec<u8> {
    if n < 0x80 {
        return vec![n as u8];
    }
    let be = (n as u64).to_be_bytes();
    let skip = be.iter().take_while(|b| **b == 0).count();
    let mut out = vec![0x80 | (8 - skip) as u8];
    out.extend_from_slice(&be[skip..]);
    out
}

pub fn tlv(tag: u8, value: &[u8]) -> Vec<u8> {
    let mut out = vec![tag];
    out.extend(enc_len(value.len()));
    out.extend_from_slice(value);
    out
}

/// Long form with exactly `width` length octets, zero padded on the left (non-minimal on purpose):
/// n=5, width=2 -> 82 00 05
pub fn tlv_long(tag: u8, value: &[u8], width: usize) -> Vec<u8> {
    assert!(width >= 1 && width <= 126, "tlv_long: width");
    let be = (value.len() as u64).to_be_bytes();
    let skip = be.iter().take_while(|b| **b == 0).count();
    assert!(8 - skip <= width, "tlv_long: length does not fit the width");
    let mut out = vec![tag, 0x80 | width as u8];
    out.extend(std::iter::repeat(0u8).take(width.saturating_sub(8)));
    out.extend_from_slice(&be[8usize.saturating_sub(width)..]);
    out.extend_from_slice(value);
    out
}

/// DER INTEGER (non-negative, minimal, leading 0 if high bit set); returns the full TLV
pub fn int(v: u64) -> Vec<u8> {
    let be = v.to_be_bytes();
    let skip = be.iter().take_while(|b| **b == 0).count().min(7);
    let mut content = Vec::new();
    if be[skip] & 0x80 != 0 {
        content.push(0);
    }
    content.extend_from_slice(&be[skip..]);
    tlv(0x02, &content)
}

/// Value bytes of a non-negative INTEGER
pub fn parse_uint(value: &[u8], strict: bool) -> Result<u64, String> {
    if value.is_empty() {
        return Err("der: empty INTEGER".into());
    }
    if value[0] & 0x80 != 0 {
        return Err("der: negative INTEGER".into());
    }
    if strict && value.len() > 1 && value[0] == 0 && value[1] & 0x80 == 0 {
        return Err("der: INTEGER not minimal".into());
    }
    let skip = value.iter().take_while(|b| **b == 0).count();
    let digits = &value[skip..];
    if digits.len() > 8 {
        return Err("der: INTEGER too large".into());
    }
    Ok(digits.iter().fold(0u64, |acc, b| (acc << 8) | *b as u64))
}

/// If `data` starts with a complete TLV return Some(total_len) else None (stream reassembly);
/// Err if the header is malformed. Non-minimal lengths pass here (the parser proper judges them).
pub fn complete_len(data: &[u8]) -> Result<Option<usize>, String> {
    match parse_header(data, false)? {
        None => Ok(None),
        Some((h, l)) => {
            let total = h.checked_add(l).ok_or_else(|| "der: length overflow".to_string())?;
            Ok(if data.len() >= total { Some(total) } else { None })
        }
    }
}

#[cfg(test)]
mod tests {
    use super::*;

    #[test]
    fn lengths() {
        assert_eq!(enc_len(0), vec![0]);
        assert_eq!(enc_len(127), vec![0x7f]);
        assert_eq!(enc_len(128), vec![0x81, 0x80]);
        assert_eq!(enc_len(255), vec![0x81, 0xff]);
        assert_eq!(enc_len(256), vec![0x82, 0x01, 0x00]);
        assert_eq!(enc_len(65536), vec![0x83, 0x01, 0x00, 0x00]);
        assert_eq!(tlv_long(0x04, &[9; 5], 2), vec![0x04, 0x82, 0, 5, 9, 9, 9, 9, 9]);
        assert_eq!(tlv_long(0x04, &[9; 1], 1), vec![0x04, 0x81, 1, 9]);
        assert_eq!(tlv_long(0x04, &[], 10)[..12], [0x04, 0x8a, 0, 0, 0, 0, 0, 0, 0, 0, 0, 0]);
    }

    #[test]
    fn tlv_round_trip() {
        for n in [0usize, 1, 127, 128, 255, 256, 70000] {
            let v = vec![0xabu8; n];
            let enc = tlv(0x04, &v);
            let (t, used) = parse_tlv(&enc, true).unwrap();
            assert_eq!(used, enc.len());
            assert_eq!((t.tag, t.header_len), (0x04, enc.len() - n));
            assert_eq!(t.value, v);
            assert_eq!(complete_len(&enc), Ok(Some(enc.len())));
            for cut in 0..enc.len().min(6) {
                assert_eq!(complete_len(&enc[..cut]), Ok(None));
                assert!(parse_tlv(&enc[..cut], true).is_err());
            }
            if n > 0 {
                assert_eq!(complete_len(&enc[..enc.len() - 1]), Ok(None));
                assert!(parse_tlv(&enc[..enc.len() - 1], false).is_err());
            }
            // extra bytes after the TLV are not consumed
            let mut more = enc.clone();
            more.extend_from_slice(&[1, 2, 3]);
            assert_eq!(parse_tlv(&more, true).unwrap().1, enc.len());
            assert_eq!(complete_len(&more), Ok(Some(enc.len())));
        }
    }

    #[test]
    fn strictness() {
        let v = [7u8; 5];
        for w in 1..5 {
            let e = tlv_long(0x04, &v, w);
            assert!(parse_tlv(&e, true).is_err(), "width {}", w);
            let (t, used) = parse_tlv(&e, false).unwrap();
            assert_eq!((t.value.as_slice(), used, t.header_len), (&v[..], e.len(), 2 + w));
            assert_eq!(complete_len(&e), Ok(Some(e.len())));
        }
        // 200 bytes: 81 c8 is minimal, 82 00 c8 is not
        let big = [1u8; 200];
        assert!(parse_tlv(&tlv_long(0x04, &big, 1), true).is_ok());
        assert!(parse_tlv(&tlv_long(0x04, &big, 2), true).is_err());
        assert!(parse_tlv(&tlv_long(0x04, &big, 2), false).is_ok());
        // indefinite, reserved, multi-byte tag
        assert!(parse_tlv(&[0x30, 0x80, 0, 0], false).is_err());
        assert!(complete_len(&[0x30, 0x80, 0, 0]).is_err());
        assert!(parse_tlv(&[0x30, 0xff, 0, 0], false).is_err());
        assert!(parse_tlv(&[0x1f, 0x01, 0x00], false).is_err());
        assert!(complete_len(&[0xbf, 0x01]).is_err());
        // absurd length
        assert!(parse_tlv(&[0x04, 0x89, 1, 0, 0, 0, 0, 0, 0, 0, 0], false).is_err());
    }

    #[test]
    fn sequences() {
        let mut body = tlv(0x02, &[1]);
        body.extend(tlv(0x04, b"xy"));
        let kids = parse_seq(&body, true).unwrap();
        assert_eq!(kids.len(), 2);
        assert_eq!((kids[0].tag, kids[1].tag), (0x02, 0x04));
        assert_eq!(parse_seq(&[], true).unwrap().len(), 0);
        body.push(0x04);
        assert!(parse_seq(&body, true).is_err());
    }

    #[test]
    fn integers() {
        assert_eq!(int(0), vec![2, 1, 0]);
        assert_eq!(int(2), vec![2, 1, 2]);
        assert_eq!(int(127), vec![2, 1, 0x7f]);
        assert_eq!(int(128), vec![2, 2, 0, 0x80]);
        assert_eq!(int(256), vec![2, 2, 1, 0]);
        assert_eq!(int(0xc000006d), vec![2, 5, 0, 0xc0, 0, 0, 0x6d]);
        assert_eq!(int(u64::MAX), vec![2, 9, 0, 255, 255, 255, 255, 255, 255, 255, 255]);
        for v in [0u64, 1, 127, 128, 255, 256, 0xffff_ffff, u64::MAX] {
            let e = int(v);
            let (t, _) = parse_tlv(&e, true).unwrap();
            assert_eq!(parse_uint(&t.value, true), Ok(v));
        }
        assert!(parse_uint(&[], false).is_err());
        assert!(parse_uint(&[0x80], false).is_err());
        assert!(parse_uint(&[0, 1], true).is_err());
        assert_eq!(parse_uint(&[0, 1], false), Ok(1));
        assert_eq!(parse_uint(&[0, 0x80], true), Ok(128));
        assert!(parse_uint(&[1, 0, 0, 0, 0, 0, 0, 0, 0], false).is_err());
    }
}
