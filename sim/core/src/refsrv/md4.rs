//! MD4 message digest, RFC 1320.

fn f(x: u32, y: u32, z: u32) -> u32 { (x & y) | (!x & z) }
fn g(x: u32, y: u32, z: u32) -> u32 { (x & y) | (x & z) | (y & z) }
fn h(x: u32, y: u32, z: u32) -> u32 { x ^ y ^ z }

pub fn md4(data: &[u8]) -> [u8; 16] {
    // padding: 0x80, zeros up to 56 mod 64, then bit length as 64-bit little endian
    let mut msg = data.to_vec();
    msg.push(0x80);
    while msg.len() % 64 != 56 {
        msg.push(0);
    }
    msg.extend_from_slice(&((data.len() as u64).wrapping_mul(8)).to_le_bytes());

    let mut st: [u32; 4] = [0x67452301, 0xefcdab89, 0x98badcfe, 0x10325476];
    for block in msg.chunks(64) {
        let mut x = [0u32; 16];
        for (i, w) in block.chunks(4).enumerate() {
            x[i] = u32::from_le_bytes([w[0], w[1], w[2], w[3]]);
        }
        let [mut a, mut b, mut c, mut d] = st;

        // round 1: [abcd k s]  a = (a + F(b,c,d) + X[k]) <<< s
        for i in 0..16 {
            let s = [3, 7, 11, 19][i % 4];
            let t = a.wrapping_add(f(b, c, d)).wrapping_add(x[i]).rotate_left(s);
            a = d; d = c; c = b; b = t;
        }
        // round 2: a = (a + G(b,c,d) + X[k] + 5A827999) <<< s
        for i in 0..16 {
            let k = (i % 4) * 4 + i / 4;
            let s = [3, 5, 9, 13][i % 4];
            let t = a.wrapping_add(g(b, c, d)).wrapping_add(x[k]).wrapping_add(0x5a827999).rotate_left(s);
            a = d; d = c; c = b; b = t;
        }
        // round 3: a = (a + H(b,c,d) + X[k] + 6ED9EBA1) <<< s
        const K3: [usize; 16] = [0, 8, 4, 12, 2, 10, 6, 14, 1, 9, 5, 13, 3, 11, 7, 15];
        for i in 0..16 {
            let s = [3, 9, 11, 15][i % 4];
            let t = a.wrapping_add(h(b, c, d)).wrapping_add(x[K3[i]]).wrapping_add(0x6ed9eba1).rotate_left(s);
            a = d; d = c; c = b; b = t;
        }

        st[0] = st[0].wrapping_add(a);
        st[1] = st[1].wrapping_add(b);
        st[2] = st[2].wrapping_add(c);
        st[3] = st[3].wrapping_add(d);
    }
    let mut out = [0u8; 16];
    for (i, w) in st.iter().enumerate() {
        out[i * 4..i * 4 + 4].copy_from_slice(&w.to_le_bytes());
    }
    out
}

#[cfg(test)]
mod tests {
    use super::md4;
    fn hex(b: &[u8]) -> String { b.iter().map(|x| format!("{:02x}", x)).collect() }

    #[test]
    fn rfc1320_vectors() {
        let v: [(&str, &str); 7] = [
            ("", "31d6cfe0d16ae931b73c59d7e0c089c0"),
            ("a", "bde52cb31de33e46245e05fbdbd6fb24"),
            ("abc", "a448017aaf21d8525fc10ae87aa6729d"),
            ("message digest", "d9130a8164549fe818874806e1c7014b"),
            ("abcdefghijklmnopqrstuvwxyz", "d79e1c308aa5bbcdeea8ed63df412da9"),
            ("ABCDEFGHIJKLMNOPQRSTUVWXYZabcdefghijklmnopqrstuvwxyz0123456789", "043f8582f241db351ce627e153e7f0e4"),
            ("12345678901234567890123456789012345678901234567890123456789012345678901234567890", "e33b4ddc9c38f2199c3e7b164fcc0536"),
        ];
        for (m, d) in v.iter() {
            assert_eq!(hex(&md4(m.as_bytes())), *d, "md4({:?})", m);
        }
    }
}
