//! Builders for conforming server messages (MS-RDPBCGR / T.125 / T.124), parametrised by
//! `ServerParams`. Every builder returns a `Wr` whose field map feeds the Byzantine mutators.

use super::bytes::{ber_len, Wr};
use crate::tape::Ctx;

#[derive(Clone, Debug, PartialEq)]
pub enum CcKind {
    /// RDP_NEG_RSP
    Response,
    /// RDP_NEG_FAILURE with this failure code
    Failure(u32),
    /// the client's own RDP_NEG_REQ echoed back (type 1)
    EchoRequest,
    /// bare connection confirm without negotiation data (legacy server)
    Absent,
    /// negotiation structure with an undefined type byte
    UnknownType(u8),
}

#[derive(Clone, Debug)]
pub struct ServerParams {
    pub cc_kind: CcKind,
    pub selected_protocol: u32,
    pub neg_flags: u8,
    /// a server that goes on with a client requiring restricted admin mode announces RESTRICTED_ADMIN_MODE_SUPPORTED (0x08,
    /// MS-RDPBCGR 2.2.1.2.1) whatever `neg_flags` holds; false = send `neg_flags` as they are (hostile servers of C02)
    pub honour_restricted_admin: bool,
    pub neg_length: u16,
    pub cc_src_ref: u16,
    pub cert: usize,
    pub called_connect_id: u32,
    pub domain_params: [u32; 8],
    pub ber_form: u8,
    pub node_id: u16,
    pub tag: u32,
    pub tag_width: u8,
    pub block_order: [u8; 3],
    pub core_optional: u8,
    pub version: u32,
    pub early_caps: u32,
    pub io_channel: u16,
    pub user_id: u16,
    pub per_long: bool,
    pub license_kind: u8,
    pub license_blob: Vec<u8>,
    /// the server speaks TLS 1.2 at most (many deployed servers do); only with the RSA fixtures
    pub tls12: bool,
    /// what the server puts into TS_SHAREDATAHEADER.uncompressedLength: 0 = the share-control totalLength (Windows
    /// servers), 1 = the length from pduType2 on, totalLength - 14 (the examples of MS-RDPBCGR section 4, rdesktop-style
    /// servers), 2 = the length of the payload behind the header (FreeRDP-style servers). Receivers size nothing by it.
    pub sd_length_convention: u8,
    pub license_sec_extra: u16,
    /// flagsHi of the licence packet's security header: without SEC_FLAGSHI_VALID it "is uninitialized and MAY contain
    /// random data" (MS-RDPBCGR 2.2.8.1.1.2.1)
    pub license_flags_hi: u16,
    /// LICENSE_PREAMBLE flags: version 2.0 / 3.0 in the low nibble, EXTENDED_ERROR_MSG_SUPPORTED (0x80) on top
    pub license_flags: u8,
    pub share_id: u32,
    pub source_desc: Vec<u8>,
    pub caps: Vec<(u16, Vec<u8>)>,
    pub server_channel: u16,
    pub stream_id: u8,
    pub session_id: u32,
    /// static channel ids announced in the server network data (the client under test requests none)
    pub announced_channels: Vec<u16>,
    /// licensing ERROR_ALERT contents (7 / 2 = STATUS_VALID_CLIENT / ST_NO_TRANSITION)
    pub license_error_code: u32,
    pub license_state_transition: u32,
}

impl ServerParams {
    /// what a stock Windows server would send
    pub fn default_for(selected: u32) -> ServerParams {
        ServerParams {
            cc_kind: CcKind::Response,
            selected_protocol: selected,
            neg_flags: 0x1f & 0x0b,
            honour_restricted_admin: true,
            neg_length: 8,
            cc_src_ref: 0x1234,
            cert: 0,
            called_connect_id: 0,
            domain_params: [34, 3, 0, 1, 0, 1, 0xfff8, 2],
            ber_form: 0,
            node_id: 0x79f3,
            tag: 1,
            tag_width: 1,
            block_order: [0, 2, 1],
            core_optional: 2,
            version: 0x00080004,
            early_caps: 0,
            io_channel: 1003,
            user_id: 1007,
            per_long: false,
            license_kind: 1,
            license_blob: vec![],
            tls12: false,
            sd_length_convention: 0,
            license_sec_extra: 0,
            license_flags_hi: 0,
            license_flags: 0x03,
            share_id: 0x000103ea,
            source_desc: b"RDP\0".to_vec(),
            caps: default_caps(),
            server_channel: 0x03ea,
            stream_id: 2,
            session_id: 0,
            announced_channels: Vec::new(),
            license_error_code: 7,
            license_state_transition: 2,
        }
    }

    /// draw a conforming parameter set from the tape (0 = the stock value everywhere)
    pub fn generate(ctx: &mut Ctx, selected: u32) -> ServerParams {
        let mut p = ServerParams::default_for(selected);
        p.neg_flags = ctx.choose("neg_flags", 32) as u8;
        if p.neg_flags == 0 {
            p.neg_flags = 0x0b;
        }
        p.cc_src_ref = ctx.u16_boundary("cc_src_ref");
        p.called_connect_id = match ctx.choose("called_id", 4) {
            0 => 0,
            1 => 1,
            2 => 0x7fffffff,
            _ => ctx.choose("called_id_v", 1 << 31) as u32,
        };
        if ctx.chance("domain_params", 1, 3) {
            p.domain_params = [
                ctx.choose("dp", 65536) as u32, ctx.choose("dp", 65536) as u32, ctx.choose("dp", 65536) as u32, 1 + ctx.choose("dp", 3) as u32,
                ctx.choose("dp", 2) as u32, 1 + ctx.choose("dp", 3) as u32, 1056 + ctx.choose("dp", 65536 - 1056) as u32, 2,
            ];
        }
        p.ber_form = ctx.choose("ber_form", 3) as u8;
        p.node_id = 1001 + ctx.choose("node_id", 65535 - 1001 + 1) as u16;
        if ctx.chance("node_b", 1, 4) {
            p.node_id = *ctx.pick("node_bv", &[1001u16, 1002, 65535, 0x79f3]);
        }
        p.tag_width = *ctx.pick("tag_width", &[1u8, 2, 4]);
        p.tag = match p.tag_width { 1 => ctx.choose("tag", 256) as u32, 2 => ctx.choose("tag", 65536) as u32, _ => ctx.choose("tag", 1 << 32) as u32 };
        const ORDERS: [[u8; 3]; 6] = [[0, 2, 1], [0, 1, 2], [1, 0, 2], [1, 2, 0], [2, 0, 1], [2, 1, 0]];
        p.block_order = ORDERS[ctx.choose("block_order", 6) as usize];
        p.core_optional = 2 - ctx.choose("core_optional", 3) as u8;
        p.version = *ctx.pick("version", &[0x00080004u32, 0x00080001, 0x00080005, 0x00080006, 0x00080007, 0x00080008, 0x00080009, 0x0008000A, 0x0008000B, 0x0008000C, 0x0008000D, 0x0008000E, 0x0008000F]);
        p.early_caps = ctx.choose("early_caps", 8) as u32;
        // I/O channel: 1003 with weight 3/4
        p.user_id = 1001 + ctx.choose("user_id", 65535 - 1001 + 1) as u16;
        if ctx.chance("user_b", 1, 4) {
            p.user_id = *ctx.pick("user_bv", &[1007u16, 1001, 1002, 1004, 65535, 65534]);
        }
        if ctx.chance("io_channel_other", 1, 4) {
            p.io_channel = 1001 + ctx.choose("io_channel", 65535 - 1001 + 1) as u16;
        }
        if p.user_id == p.io_channel {
            p.user_id = if p.user_id == 65535 { 1001 } else { p.user_id + 1 };
        }
        p.per_long = ctx.chance("per_long", 1, 4);
        p.license_kind = 1 - ctx.choose("license_kind", 2) as u8;
        let bl = match ctx.choose("blob_len_c", 3) { 0 => 0, 1 => ctx.choose("blob_len", 16) as usize, _ => ctx.choose("blob_len", 600) as usize };
        p.license_blob = ctx.bytes("blob", bl.min(8)).into_iter().cycle().take(bl).collect();
        p.license_sec_extra = if ctx.chance("lic_0200", 1, 3) { 0x0200 } else { 0 };
        p.license_flags_hi = if ctx.chance("lic_flags_hi", 1, 3) { 1 + ctx.choose("lic_flags_hi_v", 0xffff) as u16 } else { 0 };
        p.tls12 = ctx.chance("tls12_server", 1, 3);
        p.sd_length_convention = *ctx.pick("sd_length_convention", &[0u8, 0, 0, 1, 2]);
        p.license_flags = *ctx.pick("lic_preamble_flags", &[0x03u8, 0x03, 0x03, 0x83, 0x83, 0x02, 0x82]);
        p.share_id = match ctx.choose("share_id_c", 4) { 0 => 0x000103ea, 1 => 0, 2 => 0xffffffff, _ => ctx.choose("share_id", 1 << 32) as u32 };
        p.source_desc = match ctx.choose("src_desc", 4) { 0 => b"RDP\0".to_vec(), 1 => vec![], 2 => b"MSTSC\0".to_vec(), _ => { let n = ctx.choose("src_len", 40) as usize; vec![b'x'; n] } };
        p.caps = generate_caps(ctx);
        p.stream_id = *ctx.pick("stream_id", &[2u8, 1, 4]);
        p.session_id = ctx.choose("session_id", 4) as u32;
        p.cert = ctx.choose("cert", crate::refsrv::server::FIXTURES.len() as u64) as usize;
        p
    }
}

fn cap(typ: u16, body: &[u8]) -> (u16, Vec<u8>) {
    (typ, body.to_vec())
}

/// capability sets a Windows 2008-class server sends (sizes per MS-RDPBCGR 2.2.7)
pub fn default_caps() -> Vec<(u16, Vec<u8>)> {
    let mut general = vec![1, 0, 3, 0, 0, 2, 0, 0, 0, 0, 0x1d, 4, 0, 0, 0, 0, 0, 0, 1, 1];
    general.truncate(20);
    let bitmap = vec![32, 0, 1, 0, 1, 0, 1, 0, 0x20, 3, 0x58, 2, 0, 0, 1, 0, 1, 0, 0, 0x1e, 1, 0, 0, 0];
    let mut order = vec![0u8; 84];
    order[20] = 1;
    order[22] = 20;
    let pointer = vec![1, 0, 25, 0, 25, 0];
    let input = {
        let mut v = vec![0u8; 84];
        // INPUT_FLAG_SCANCODES | MOUSEX | UNICODE: the reference server takes slow-path input only and therefore does
        // not announce INPUT_FLAG_FASTPATH_INPUT / INPUT2 (a client is free to use fast-path input towards a server
        // that does)
        v[0] = 0x15;
        v
    };
    vec![
        cap(0x09, &[0xea, 0x03, 0, 0]),
        cap(0x01, &general),
        cap(0x02, &bitmap),
        cap(0x03, &order),
        cap(0x08, &pointer),
        cap(0x0d, &input),
        cap(0x14, &[1, 0, 0, 0, 0x40, 6, 0, 0]),
        cap(0x0e, &[1, 0, 0, 0]),
        cap(0x1a, &[0, 0, 0x20, 0]),
        cap(0x1b, &[1, 0]),
        cap(0x1c, &[0x52, 0, 0, 0, 0, 0, 0, 0]),
        cap(0x1e, &[0, 0, 0, 0]),
    ]
}

fn generate_caps(ctx: &mut Ctx) -> Vec<(u16, Vec<u8>)> {
    let base = default_caps();
    match ctx.choose("caps_mode", 5) {
        0 => base,
        1 => vec![],
        2 => {
            // random subset, random order
            let mut out = Vec::new();
            let n = ctx.choose("caps_n", 31) as usize;
            for _ in 0..n {
                let i = ctx.choose("caps_i", base.len() as u64) as usize;
                out.push(base[i].clone());
            }
            out
        }
        3 => {
            // unknown types with arbitrary bodies, mixed in
            let mut out = base.clone();
            let n = 1 + ctx.choose("caps_unknown_n", 6) as usize;
            for _ in 0..n {
                let typ = *ctx.pick("caps_unknown_t", &[0x06u16, 0x0b, 0x12, 0x15, 0x16, 0x17, 0x18, 0x19, 0x1d, 0x1f, 0x20, 0x7fff, 0xffff]);
                let len = ctx.choose("caps_unknown_len", 64) as usize;
                let body = ctx.bytes("caps_unknown_b", len);
                let at = ctx.choose("caps_at", out.len() as u64 + 1) as usize;
                out.insert(at, (typ, body));
            }
            out
        }
        _ => {
            // known types with their alternative legal sizes / other field values
            let mut out = base.clone();
            out.push(cap(0x08, &[1, 0, 25, 0]));
            out.push(cap(0x14, &[1, 0, 0, 0]));
            out.push(cap(0x0c, &[1, 0, 0, 0]));
            out.push(cap(0x0f, &[1, 0, 0, 0]));
            out.push(cap(0x11, &[1, 0, 0, 0, 0, 0x1e, 0x64, 0]));
            out.push(cap(0x04, &vec![0u8; 36]));
            out.push(cap(0x10, &vec![0u8; 48]));
            let at = ctx.choose("caps_rot", out.len() as u64) as usize;
            out.rotate_left(at);
            out
        }
    }
}

pub fn tpkt(body: &Wr) -> Wr {
    let mut w = Wr::new();
    w.u8("tpkt.version", 3).u8("tpkt.reserved", 0).u16be("tpkt.length", (body.len() + 4) as u16);
    w.append(body);
    w
}

pub fn x224_data(body: &Wr) -> Wr {
    let mut w = Wr::new();
    w.u8("x224.li", 2).u8("x224.code", 0xf0).u8("x224.eot", 0x80);
    w.append(body);
    tpkt(&w)
}

pub fn connection_confirm(p: &ServerParams, client_req: u32) -> Wr {
    let mut neg = Wr::new();
    match &p.cc_kind {
        CcKind::Response => {
            neg.u8("neg.type", 2).u8("neg.flags", p.neg_flags).u16le("neg.length", p.neg_length).u32le("neg.selectedProtocol", p.selected_protocol);
        }
        CcKind::Failure(code) => {
            neg.u8("neg.type", 3).u8("neg.flags", 0).u16le("neg.length", p.neg_length).u32le("neg.failureCode", *code);
        }
        CcKind::EchoRequest => {
            neg.u8("neg.type", 1).u8("neg.flags", p.neg_flags).u16le("neg.length", p.neg_length).u32le("neg.requestedProtocols", client_req);
        }
        CcKind::Absent => {}
        CcKind::UnknownType(t) => {
            neg.u8("neg.type", *t).u8("neg.flags", p.neg_flags).u16le("neg.length", p.neg_length).u32le("neg.selectedProtocol", p.selected_protocol);
        }
    }
    let mut w = Wr::new();
    w.u8("x224.li", (6 + neg.len()) as u8).u8("x224.code", 0xd0).u16be("x224.dstref", 0).u16be("x224.srcref", p.cc_src_ref).u8("x224.class", 0);
    w.append(&neg);
    tpkt(&w)
}

fn ber_int(w: &mut Wr, name: &'static str, v: u32) {
    // minimal two's complement, non-negative
    let mut bytes = v.to_be_bytes().to_vec();
    while bytes.len() > 1 && bytes[0] == 0 && bytes[1] & 0x80 == 0 {
        bytes.remove(0);
    }
    if bytes[0] & 0x80 != 0 {
        bytes.insert(0, 0);
    }
    w.u8("ber.int.tag", 2).u8("ber.int.len", bytes.len() as u8).bytes(name, &bytes);
}

pub fn gcc_blocks(p: &ServerParams, client_requested: u32) -> Wr {
    let mut out = Wr::new();
    for b in p.block_order.iter() {
        match b {
            0 => {
                let len = 8 + 4 * p.core_optional as u16;
                out.u16le("sc_core.type", 0x0c01).u16le("sc_core.length", len).u32le("sc_core.version", p.version);
                if p.core_optional >= 1 {
                    out.u32le("sc_core.clientRequestedProtocols", client_requested);
                }
                if p.core_optional >= 2 {
                    out.u32le("sc_core.earlyCapabilityFlags", p.early_caps);
                }
            }
            1 => {
                out.u16le("sc_sec.type", 0x0c02).u16le("sc_sec.length", 12).u32le("sc_sec.encryptionMethod", 0).u32le("sc_sec.encryptionLevel", 0);
            }
            _ => {
                let n = p.announced_channels.len();
                let pad = n % 2;
                out.u16le("sc_net.type", 0x0c03).u16le("sc_net.length", (8 + 2 * (n + pad)) as u16).u16le("sc_net.MCSChannelId", p.io_channel).u16le("sc_net.channelCount", n as u16);
                for c in &p.announced_channels {
                    out.u16le("sc_net.channelId", *c);
                }
                if pad == 1 {
                    out.u16le("sc_net.pad", 0);
                }
            }
        }
    }
    out
}

pub fn gcc_response(p: &ServerParams, client_requested: u32) -> Wr {
    let blocks = gcc_blocks(p, client_requested);
    let mut inner = Wr::new();
    inner.u8("gcc.choice", 0x14).u16be("gcc.nodeID", p.node_id - 1001);
    match p.tag_width {
        1 => { inner.u8("gcc.tag.len", 1).u8("gcc.tag", p.tag as u8); }
        2 => { inner.u8("gcc.tag.len", 2).u16be("gcc.tag", p.tag as u16); }
        _ => { inner.u8("gcc.tag.len", 4).u32be("gcc.tag", p.tag); }
    }
    inner.u8("gcc.result", 0).u8("gcc.nsets", 1).u8("gcc.h221choice", 0xc0).u8("gcc.h221len", 0).bytes("gcc.h221key", b"McDn");
    inner.per_len("gcc.userDataLength", blocks.len(), p.per_long);
    inner.append(&blocks);
    let mut w = Wr::new();
    w.bytes("gcc.t124key", &[0x00, 0x05, 0x00, 0x14, 0x7c, 0x00, 0x01]);
    w.per_len("gcc.connectPDULength", inner.len(), p.per_long);
    w.append(&inner);
    w
}

pub fn mcs_connect_response(p: &ServerParams, client_requested: u32) -> Wr {
    let gcc = gcc_response(p, client_requested);
    let mut dp = Wr::new();
    for (i, v) in p.domain_params.iter().enumerate() {
        const N: [&str; 8] = ["dp.maxChannelIds", "dp.maxUserIds", "dp.maxTokenIds", "dp.numPriorities", "dp.minThroughput", "dp.maxHeight", "dp.maxMCSPDUsize", "dp.protocolVersion"];
        ber_int(&mut dp, N[i], *v);
    }
    let mut body = Wr::new();
    body.u8("cr.result.tag", 0x0a).u8("cr.result.len", 1).u8("cr.result", 0);
    ber_int(&mut body, "cr.calledConnectId", p.called_connect_id);
    body.u8("cr.dp.tag", 0x30).bytes("cr.dp.len", &ber_len(dp.len(), p.ber_form));
    body.append(&dp);
    body.u8("cr.userData.tag", 0x04).bytes("cr.userData.len", &ber_len(gcc.len(), p.ber_form));
    body.append(&gcc);
    let mut w = Wr::new();
    w.u8("cr.tag0", 0x7f).u8("cr.tag1", 0x66).bytes("cr.len", &ber_len(body.len(), p.ber_form));
    w.append(&body);
    x224_data(&w)
}

pub fn attach_user_confirm(p: &ServerParams) -> Wr {
    let mut w = Wr::new();
    w.u8("auc.header", 0x2e).u8("auc.result", 0).u16be("auc.initiator", p.user_id - 1001);
    x224_data(&w)
}

pub fn channel_join_confirm(initiator: u16, channel: u16, result: u8) -> Wr {
    let mut w = Wr::new();
    w.u8("cjc.header", 0x3e).u8("cjc.result", result).u16be("cjc.initiator", initiator.wrapping_sub(1001)).u16be("cjc.requested", channel).u16be("cjc.channelId", channel);
    x224_data(&w)
}

pub fn send_data_indication(p: &ServerParams, payload: &Wr) -> Wr {
    let mut w = Wr::new();
    w.u8("sdin.header", 0x68).u16be("sdin.initiator", p.server_channel.wrapping_sub(1001)).u16be("sdin.channelId", p.io_channel).u8("sdin.prio", 0x70);
    w.per_len("sdin.length", payload.len(), p.per_long);
    w.append(payload);
    x224_data(&w)
}

pub fn license(p: &ServerParams) -> Wr {
    let mut w = Wr::new();
    w.u16le("sec.flags", 0x0080 | p.license_sec_extra).u16le("sec.flagsHi", p.license_flags_hi);
    if p.license_kind >= 2 {
        // other licensing messages a server with licensing enabled may send (MS-RDPELE); only used as base
        // messages for the hostile scenarios, the client does not implement them
        let mut body = Wr::new();
        let typ: u8 = match p.license_kind { 2 => 0x01, 3 => 0x02, _ => 0x04 };
        match p.license_kind {
            2 => {
                // SERVER_LICENSE_REQUEST: random, product info, key exchange list, certificate, scope list
                body.bytes("licreq.serverRandom", &[0x5a; 32]).u32le("licreq.dwVersion", 0x00060000).u32le("licreq.cbCompanyName", 20).bytes("licreq.pbCompanyName", &[0x4d, 0, 0x53, 0, 0, 0, 0, 0, 0, 0, 0, 0, 0, 0, 0, 0, 0, 0, 0, 0])
                    .u32le("licreq.cbProductId", 8).bytes("licreq.pbProductId", &[0x41, 0, 0x30, 0, 0x32, 0, 0, 0])
                    .u16le("licreq.keyxBlobType", 0x000d).u16le("licreq.keyxBlobLen", 4).u32le("licreq.keyxAlg", 1)
                    .u16le("licreq.certBlobType", 0x0003).u16le("licreq.certBlobLen", p.license_blob.len() as u16).bytes("licreq.cert", &p.license_blob)
                    .u32le("licreq.scopeCount", 1).u16le("licreq.scopeBlobType", 0x000e).u16le("licreq.scopeBlobLen", 4).bytes("licreq.scope", b"ms\0\0");
            }
            3 => {
                body.u32le("platch.connectFlags", 0).u16le("platch.blobType", 0).u16le("platch.blobLen", p.license_blob.len() as u16).bytes("platch.blob", &p.license_blob).bytes("platch.mac", &[0u8; 16]);
            }
            _ => {
                body.u16le("upg.blobType", 0x0009).u16le("upg.blobLen", p.license_blob.len() as u16).bytes("upg.blob", &p.license_blob).bytes("upg.mac", &[0u8; 16]);
            }
        }
        w.u8("lic.bMsgType", typ).u8("lic.flags", p.license_flags).u16le("lic.wMsgSize", (4 + body.len()) as u16);
        w.append(&body);
    } else if p.license_kind == 1 {
        let size = 4 + 4 + 4 + 4 + p.license_blob.len();
        w.u8("lic.bMsgType", 0xff).u8("lic.flags", p.license_flags).u16le("lic.wMsgSize", size as u16);
        w.u32le("lic.dwErrorCode", p.license_error_code).u32le("lic.dwStateTransition", p.license_state_transition).u16le("lic.wBlobType", 4).u16le("lic.wBlobLen", p.license_blob.len() as u16).bytes("lic.blob", &p.license_blob);
    } else {
        let size = 4 + p.license_blob.len();
        w.u8("lic.bMsgType", 0x03).u8("lic.flags", p.license_flags).u16le("lic.wMsgSize", size as u16).bytes("lic.body", &p.license_blob);
    }
    send_data_indication(p, &w)
}

pub fn share_control(p: &ServerParams, pdu_type: u16, body: &Wr) -> Wr {
    let mut w = Wr::new();
    w.u16le("sc.totalLength", (body.len() + 6) as u16).u16le("sc.pduType", pdu_type).u16le("sc.PDUSource", p.server_channel);
    w.append(body);
    w
}

pub fn share_data_raw(p: &ServerParams, share_id: u32, typ2: u8, payload: &Wr) -> Wr {
    let mut b = Wr::new();
    b.u32le("sd.shareId", share_id).u8("sd.pad1", 0).u8("sd.streamId", p.stream_id).u16le("sd.uncompressedLength", (payload.len() + match p.sd_length_convention { 0 => 18, 1 => 4, _ => 0 }) as u16)
        .u8("sd.pduType2", typ2).u8("sd.compressedType", 0).u16le("sd.compressedLength", 0);
    b.append(payload);
    share_control(p, 0x17, &b)
}

pub fn share_data(p: &ServerParams, share_id: u32, typ2: u8, payload: &Wr) -> Wr {
    send_data_indication(p, &share_data_raw(p, share_id, typ2, payload))
}

pub fn demand_active_raw(p: &ServerParams, share_id: u32) -> Wr {
    let mut caps = Wr::new();
    for (t, body) in &p.caps {
        caps.u16le("cap.type", *t).u16le("cap.length", (body.len() + 4) as u16).bytes("cap.body", body);
    }
    let mut b = Wr::new();
    b.u32le("da.shareId", share_id).u16le("da.lengthSourceDescriptor", p.source_desc.len() as u16).u16le("da.lengthCombinedCapabilities", (caps.len() + 4) as u16)
        .bytes("da.sourceDescriptor", &p.source_desc).u16le("da.numberCapabilities", p.caps.len() as u16).u16le("da.pad2Octets", 0);
    b.append(&caps);
    b.u32le("da.sessionId", p.session_id);
    share_control(p, 0x11, &b)
}

pub fn demand_active(p: &ServerParams, share_id: u32) -> Wr {
    send_data_indication(p, &demand_active_raw(p, share_id))
}

pub fn deactivate_all_raw(p: &ServerParams, share_id: u32) -> Wr {
    deactivate_all_raw_with(p, share_id, &[0])
}

pub fn deactivate_all_raw_with(p: &ServerParams, share_id: u32, source_descriptor: &[u8]) -> Wr {
    let mut b = Wr::new();
    b.u32le("dea.shareId", share_id).u16le("dea.lengthSourceDescriptor", source_descriptor.len() as u16).bytes("dea.sourceDescriptor", source_descriptor);
    share_control(p, 0x16, &b)
}

pub fn synchronize_payload(target: u16) -> Wr {
    let mut w = Wr::new();
    w.u16le("sync.messageType", 1).u16le("sync.targetUser", target);
    w
}

pub fn control_payload(action: u16, grant: u16, control: u32) -> Wr {
    let mut w = Wr::new();
    w.u16le("ctl.action", action).u16le("ctl.grantId", grant).u32le("ctl.controlId", control);
    w
}

pub fn font_map_payload() -> Wr {
    let mut w = Wr::new();
    w.u16le("fm.numberEntries", 0).u16le("fm.totalNumEntries", 0).u16le("fm.mapFlags", 3).u16le("fm.entrySize", 4);
    w
}

pub fn set_error_info_payload(code: u32) -> Wr {
    let mut w = Wr::new();
    w.u32le("sei.errorInfo", code);
    w
}

/// fast-path output PDU around already-encoded updates
pub fn fastpath(updates: &Wr, long_form: bool, header_flags: u8) -> Wr {
    let mut w = Wr::new();
    let total_short = updates.len() + 2;
    w.u8("fp.header", header_flags << 6);
    if total_short <= 0x7f && !long_form {
        w.u8("fp.length1", total_short as u8);
    } else {
        let total = updates.len() + 3;
        w.u16be("fp.length2", 0x8000 | total as u16);
    }
    w.append(updates);
    w
}

pub fn fp_update(code: u8, data: &Wr) -> Wr {
    let mut w = Wr::new();
    w.u8("fpu.header", code & 0x0f).u16le("fpu.size", data.len() as u16);
    w.append(data);
    w
}

#[derive(Clone, Debug, PartialEq)]
pub struct Rect {
    pub left: u16,
    pub top: u16,
    pub right: u16,
    pub bottom: u16,
    pub width: u16,
    pub height: u16,
    pub bpp: u16,
    pub flags: u16,
    pub data: Vec<u8>,
    /// cbScanWidth, cbUncompressedSize of the compression header when present
    pub hdr: (u16, u16),
}

pub fn bitmap_update_data(rects: &[Rect]) -> Wr {
    let mut w = Wr::new();
    w.u16le("bmp.updateType", 1).u16le("bmp.numberRectangles", rects.len() as u16);
    for r in rects {
        let with_hdr = r.flags & 0x0001 != 0 && r.flags & 0x0400 == 0;
        w.u16le("bmp.destLeft", r.left).u16le("bmp.destTop", r.top).u16le("bmp.destRight", r.right).u16le("bmp.destBottom", r.bottom)
            .u16le("bmp.width", r.width).u16le("bmp.height", r.height).u16le("bmp.bitsPerPixel", r.bpp).u16le("bmp.flags", r.flags)
            .u16le("bmp.bitmapLength", (r.data.len() + if with_hdr { 8 } else { 0 }) as u16);
        if with_hdr {
            w.u16le("bmp.cbCompFirstRowSize", 0).u16le("bmp.cbCompMainBodySize", r.data.len() as u16).u16le("bmp.cbScanWidth", r.hdr.0).u16le("bmp.cbUncompressedSize", r.hdr.1);
        }
        w.bytes("bmp.data", &r.data);
    }
    w
}

pub fn mcs_disconnect_ultimatum() -> Wr {
    let mut w = Wr::new();
    w.u8("dpu.b0", 0x21).u8("dpu.b1", 0x80);
    x224_data(&w)
}
