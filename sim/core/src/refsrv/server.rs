//! The reactive reference server: a resumable state machine over the non-blocking end of the wire.
//! It runs only when the client is about to block (ClientEnd pumps it) or when the driver asks.

use super::build::{self, CcKind, ServerParams};
use super::bytes::Wr;
use super::strict::{self, ClientMsg, DataPdu, SharePdu};
use crate::harness::HarnessRegion;
use crate::tape::{hex_short, Ctx};
use crate::wire::{Pump, ServerEnd, Wire};
use native_tls::{HandshakeError, Identity, MidHandshakeTlsStream, TlsAcceptor, TlsStream};
use std::cell::RefCell;
use std::io::{ErrorKind, Read, Write};
use std::rc::Rc;

pub const FIXTURES: [&str; 6] = ["rsa2048", "rsa3072", "rsa4096", "ecp256", "rsa2048b", "ed25519ff"];
/// fixtures whose certificate is in /verif/fixtures/trust.pem (SSL_CERT_FILE)
pub const TRUSTED: [bool; 6] = [true, true, false, true, false, false];

pub fn fixtures_dir() -> String {
    std::env::var("VERIF_FIXTURES").unwrap_or_else(|_| "/verif/fixtures".to_string())
}

thread_local! {
    static ACCEPTORS: RefCell<Vec<Option<TlsAcceptor>>> = RefCell::new(vec![None, None, None, None, None, None, None, None, None, None, None, None]);
    static CERT_DER: RefCell<Vec<Option<Vec<u8>>>> = RefCell::new(vec![None, None, None, None, None, None]);
}

fn acceptor(i: usize, tls12: bool) -> TlsAcceptor {
    let tls12 = tls12 && FIXTURES[i].starts_with("rsa");
    let slot = if tls12 { i + 6 } else { i };
    ACCEPTORS.with(|a| {
        let mut a = a.borrow_mut();
        if a[slot].is_none() {
            let dir = fixtures_dir();
            let crt = std::fs::read(format!("{}/{}.crt", dir, FIXTURES[i])).expect("fixture crt");
            let key = std::fs::read(format!("{}/{}.key", dir, FIXTURES[i])).expect("fixture key");
            let id = Identity::from_pkcs8(&crt, &key).expect("identity");
            let mut b = TlsAcceptor::builder(id);
            if tls12 {
                b.max_protocol_version(Some(native_tls::Protocol::Tlsv12));
            }
            a[slot] = Some(b.build().expect("acceptor"));
        }
        a[slot].clone().unwrap()
    })
}

/// DER of the fixture certificate (what the client will see as peer certificate)
pub fn cert_der(i: usize) -> Vec<u8> {
    CERT_DER.with(|c| {
        let mut c = c.borrow_mut();
        if c[i].is_none() {
            let crt = std::fs::read(format!("{}/{}.crt", fixtures_dir(), FIXTURES[i])).expect("fixture crt");
            let x = openssl::x509::X509::from_pem(&crt).expect("pem");
            c[i] = Some(x.to_der().expect("der"));
        }
        c[i].clone().unwrap()
    })
}

enum Tls {
    Plain(ServerEnd),
    Handshake(MidHandshakeTlsStream<ServerEnd>),
    Up(TlsStream<ServerEnd>),
    Failed,
    Taken,
}

#[derive(Clone, Copy, Debug, PartialEq)]
pub enum Phase {
    ExpectCR,
    Tls,
    Nla,
    ExpectConnectInitial,
    ExpectErect,
    ExpectAttach,
    Joins,
    ExpectInfo,
    Activation,
    Active,
    Closed,
    /// the server stopped talking (after an error reply, a failed handshake, ...)
    Dead,
}

#[derive(Clone, Debug)]
pub enum Packing {
    /// one PDU per write (TLS record / TCP segment)
    OnePerRecord,
    /// everything produced in one pump goes out in a single write
    Coalesce,
    /// each PDU is cut in two writes at a tape-chosen offset
    Split,
    /// per PDU: the tape decides between the three above
    Mixed,
}

/// a transformation applied to one server message just before it is sent (C05-C07, C01)
pub type Mutator = Box<dyn FnMut(&mut Ctx, &str, &Wr) -> MutOut>;
pub enum MutOut {
    /// send these bytes instead
    Bytes(Vec<u8>),
    /// send these bytes, then close (FIN) / go silent
    BytesThenFin(Vec<u8>),
    BytesThenSilence(Vec<u8>),
    Unchanged,
}

/// CredSSP / NTLM conversation plugged in when HYBRID is selected
pub trait NlaHandler {
    /// called with the decrypted bytes received so far; returns the number consumed and the replies to send.
    /// `done` = the CredSSP phase is over (credentials received)
    fn on_bytes(&mut self, ctx: &mut Ctx, inbuf: &[u8], cert_index: usize) -> NlaStep;
}
pub struct NlaStep {
    pub consumed: usize,
    pub replies: Vec<(String, Vec<u8>)>,
    pub done: bool,
    pub dead: bool,
}

pub struct Server {
    pub wire: Rc<RefCell<Wire>>,
    pub ctx: Rc<RefCell<Ctx>>,
    pub p: ServerParams,
    pub packing: Packing,
    tls: Tls,
    pub phase: Phase,
    inbuf: Vec<u8>,
    /// decoded client messages with the log sequence number at which they were decoded
    pub history: Vec<(u64, u64, ClientMsg)>,
    /// number of pumps so far (a reply sent in pump n can only have been read by the client after pump n)
    pub pumps: u64,
    /// strict-decoder complaints: (seq, key, frame)
    pub decode_errors: Vec<(u64, String, Vec<u8>)>,
    /// ordering / state complaints of the server's own automaton
    pub protocol_errors: Vec<String>,
    /// names of the messages the server sent, with seq
    pub sent: Vec<(u64, u64, String)>,
    pub auto_activate: bool,
    pub client_requested: u32,
    pub client_req_flags: u8,
    pub joins_seen: Vec<u16>,
    pub tls_established: bool,
    pub tls_error: Option<String>,
    /// decrypted application bytes received (all of them, in order)
    pub app_in: Vec<u8>,
    pub app_in_total: usize,
    pub client_closed: bool,
    pub finalize_seen: u8,
    pub activations: u32,
    pub current_share_id: u32,
    /// share ids of the demand-actives sent, in order
    pub share_ids: Vec<u32>,
    pub mutator: Option<Mutator>,
    pub nla: Option<Box<dyn NlaHandler>>,
    pub nla_done: bool,
    pending: Vec<(String, Vec<u8>)>,
    pub go_silent: bool,
    pub bytes_sent_app: usize,
    /// raw (pre-TLS) client bytes consumed while in plain mode
    pub plain_in: Vec<u8>,
    pub info_seen: bool,
    /// nothing more will be sent (mutation followed by FIN / silence)
    pub stopped: bool,
    /// number of framed PDUs (TPKT / fast-path) queued so far; the client consumes one per read
    pub frames_sent: usize,
    /// pump in which the final CredSSP reply went out / in which the credentials were decoded
    pub nla_final_pump: u64,
    /// raw client frames (is_client_info, bytes), kept when `keep_frames` is set
    pub frames: Vec<(bool, Vec<u8>)>,
    pub keep_frames: bool,
    /// hostile: this many send-data indications for this (announced, never joined) channel precede the licence
    pub pre_license_flood: Option<(u16, usize)>,
    pub nla_done_pump: u64,
}

impl Server {
    pub fn new(wire: Rc<RefCell<Wire>>, ctx: Rc<RefCell<Ctx>>, p: ServerParams) -> Server {
        let end = ServerEnd { wire: wire.clone(), ctx: ctx.clone() };
        let share = p.share_id;
        Server {
            wire,
            ctx,
            p,
            packing: Packing::OnePerRecord,
            tls: Tls::Plain(end),
            phase: Phase::ExpectCR,
            inbuf: Vec::new(),
            history: Vec::new(),
            pumps: 0,
            decode_errors: Vec::new(),
            protocol_errors: Vec::new(),
            sent: Vec::new(),
            auto_activate: true,
            client_requested: 0,
            client_req_flags: 0,
            joins_seen: Vec::new(),
            tls_established: false,
            tls_error: None,
            app_in: Vec::new(),
            app_in_total: 0,
            client_closed: false,
            finalize_seen: 0,
            activations: 0,
            current_share_id: share,
            share_ids: Vec::new(),
            mutator: None,
            nla: None,
            nla_done: false,
            pending: Vec::new(),
            go_silent: false,
            bytes_sent_app: 0,
            plain_in: Vec::new(),
            info_seen: false,
            stopped: false,
            frames_sent: 0,
            nla_final_pump: 0,
            frames: Vec::new(),
            keep_frames: false,
            pre_license_flood: None,
            nla_done_pump: 0,
        }
    }

    // ------------------------------------------------------------------ output

    /// queue a message; it goes out at the end of the current pump (or at `flush`)
    pub fn queue(&mut self, name: &str, w: &Wr) {
        if self.stopped {
            return;
        }
        let mut bytes = w.buf.clone();
        let mut after: u8 = 0;
        if let Some(m) = self.mutator.as_mut() {
            let mut ctx = self.ctx.borrow_mut();
            match m(&mut ctx, name, w) {
                MutOut::Unchanged => {}
                MutOut::Bytes(b) => bytes = b,
                MutOut::BytesThenFin(b) => {
                    bytes = b;
                    after = 1;
                }
                MutOut::BytesThenSilence(b) => {
                    bytes = b;
                    after = 2;
                }
            }
        }
        if name != "tsrequest" && !name.starts_with("cssp") {
            self.frames_sent += 1;
        }
        self.pending.push((name.to_string(), bytes));
        if after != 0 {
            self.flush();
            if after == 1 {
                self.close_fin();
            } else {
                self.go_silent = true;
                self.phase = Phase::Dead;
            }
            self.stopped = true;
        }
    }

    pub fn queue_raw(&mut self, name: &str, bytes: Vec<u8>) {
        self.pending.push((name.to_string(), bytes));
    }

    fn write_out(&mut self, data: &[u8]) {
        if data.is_empty() {
            return;
        }
        self.bytes_sent_app += data.len();
        match &mut self.tls {
            Tls::Plain(s) => {
                let _ = s.write_all(data);
            }
            Tls::Up(s) => {
                if let Err(e) = s.write_all(data) {
                    self.tls_error = Some(format!("server write: {}", e));
                }
            }
            _ => {}
        }
    }

    pub fn flush(&mut self) {
        if self.pending.is_empty() {
            return;
        }
        let pending = std::mem::take(&mut self.pending);
        let mut coalesced: Vec<u8> = Vec::new();
        for (name, bytes) in pending {
            let seq = {
                let mut ctx = self.ctx.borrow_mut();
                // the two join confirms follow the client's HashMap order: keep their bytes out of the digest
                let body = if name == "channel-join-confirm" { String::new() } else { hex_short(&bytes) };
                ctx.ev("S->C", format!("{} ({} bytes) {}", name, bytes.len(), body));
                ctx.seq()
            };
            self.sent.push((seq, self.pumps, name.clone()));
            let mode = match self.packing {
                Packing::OnePerRecord => 0,
                Packing::Coalesce => 1,
                Packing::Split => 2,
                Packing::Mixed => self.ctx.borrow_mut().choose("pack", 3),
            };
            match mode {
                0 => {
                    if !coalesced.is_empty() {
                        let c = std::mem::take(&mut coalesced);
                        self.write_out(&c);
                        self.ctx.borrow_mut().probe("two_pdus_one_record");
                    }
                    self.write_out(&bytes);
                }
                1 => {
                    if !coalesced.is_empty() {
                        self.ctx.borrow_mut().probe("two_pdus_one_record");
                    }
                    coalesced.extend_from_slice(&bytes);
                }
                _ => {
                    if !coalesced.is_empty() {
                        let c = std::mem::take(&mut coalesced);
                        self.write_out(&c);
                    }
                    if bytes.len() >= 2 {
                        let at = 1 + self.ctx.borrow_mut().choose("split_at", bytes.len() as u64 - 1) as usize;
                        self.write_out(&bytes[..at]);
                        self.write_out(&bytes[at..]);
                        self.ctx.borrow_mut().probe("pdu_split_across_records");
                    } else {
                        self.write_out(&bytes);
                    }
                }
            }
        }
        if !coalesced.is_empty() {
            self.write_out(&coalesced);
        }
    }

    /// orderly close: TLS close_notify (when TLS is up) then FIN
    pub fn close_fin(&mut self) {
        if let Tls::Up(s) = &mut self.tls {
            let _ = s.shutdown();
        }
        self.wire.borrow_mut().server_fin = true;
        self.phase = Phase::Closed;
        self.ctx.borrow_mut().ev("S->C", "close (FIN)".to_string());
    }

    /// FIN without close_notify
    pub fn close_abrupt_fin(&mut self) {
        self.wire.borrow_mut().server_fin = true;
        self.phase = Phase::Closed;
        self.ctx.borrow_mut().ev("S->C", "FIN without close_notify".to_string());
    }

    pub fn close_rst(&mut self) {
        self.wire.borrow_mut().server_rst = true;
        self.phase = Phase::Closed;
        self.ctx.borrow_mut().ev("S->C", "RST".to_string());
    }

    // ------------------------------------------------------------------ driver-level senders (after the connection is up)

    pub fn send_demand_active(&mut self, share_id: u32) {
        self.current_share_id = share_id;
        self.share_ids.push(share_id);
        self.finalize_seen = 0;
        let w = build::demand_active(&self.p, share_id);
        self.queue("demand-active", &w);
    }

    pub fn send_data_pdu(&mut self, name: &str, typ2: u8, payload: &Wr) {
        let w = build::share_data(&self.p, self.current_share_id, typ2, payload);
        self.queue(name, &w);
    }

    pub fn send_server_finalize(&mut self) {
        let uid = self.p.user_id;
        self.send_data_pdu("synchronize", 0x1f, &build::synchronize_payload(uid));
        self.send_data_pdu("control-cooperate", 0x14, &build::control_payload(4, 0, 0));
        self.send_data_pdu("control-granted", 0x14, &build::control_payload(2, uid, 0x03ea));
        self.send_data_pdu("font-map", 0x28, &build::font_map_payload());
    }

    pub fn send_deactivate_all(&mut self) {
        let raw = build::deactivate_all_raw(&self.p, self.current_share_id);
        let w = build::send_data_indication(&self.p, &raw);
        self.queue("deactivate-all", &w);
    }

    /// several share-control PDUs packed into one MCS send-data indication (legal once the session is active)
    pub fn send_coalesced(&mut self, name: &str, parts: &[Wr]) {
        let mut all = Wr::new();
        for p in parts {
            all.append(p);
        }
        let w = build::send_data_indication(&self.p, &all);
        self.queue(name, &w);
    }

    pub fn send_fastpath(&mut self, name: &str, updates: &Wr, long_form: bool) {
        let w = build::fastpath(updates, long_form, 0);
        self.queue(name, &w);
    }

    pub fn send_disconnect_ultimatum(&mut self) {
        let w = build::mcs_disconnect_ultimatum();
        self.queue("disconnect-provider-ultimatum", &w);
    }

    // ------------------------------------------------------------------ input

    fn read_available(&mut self) -> bool {
        let mut got = false;
        let mut buf = [0u8; 16384];
        loop {
            let r = match &mut self.tls {
                Tls::Plain(s) => s.read(&mut buf),
                Tls::Up(s) => s.read(&mut buf),
                _ => return got,
            };
            match r {
                Ok(0) => {
                    if !self.client_closed {
                        self.client_closed = true;
                        self.ctx.borrow_mut().ev("C->S", "close".to_string());
                    }
                    return got;
                }
                Ok(n) => {
                    got = true;
                    if matches!(self.tls, Tls::Plain(_)) {
                        self.plain_in.extend_from_slice(&buf[..n]);
                    } else {
                        self.app_in.extend_from_slice(&buf[..n]);
                        self.app_in_total += n;
                    }
                    self.inbuf.extend_from_slice(&buf[..n]);
                }
                Err(e) if e.kind() == ErrorKind::WouldBlock => return got,
                Err(e) => {
                    if self.tls_error.is_none() {
                        self.tls_error = Some(format!("server read: {}", e));
                        self.ctx.borrow_mut().ev("srv", "transport/TLS read error".to_string());
                    }
                    return got;
                }
            }
        }
    }

    fn start_tls(&mut self) {
        let old = std::mem::replace(&mut self.tls, Tls::Taken);
        if let Tls::Plain(end) = old {
            if self.p.tls12 { self.ctx.borrow_mut().probe("tls12_server"); }
            match acceptor(self.p.cert, self.p.tls12).accept(end) {
                Ok(s) => {
                    self.tls = Tls::Up(s);
                    self.tls_established = true;
                    self.phase = if self.p.selected_protocol & 0xa != 0 && self.nla.is_some() { Phase::Nla } else { Phase::ExpectConnectInitial };
                }
                Err(HandshakeError::WouldBlock(mid)) => self.tls = Tls::Handshake(mid),
                Err(HandshakeError::Failure(e)) => {
                    self.tls = Tls::Failed;
                    self.tls_error = Some(format!("accept: {}", e));
                    self.phase = Phase::Dead;
                }
            }
        }
    }

    fn drive_handshake(&mut self) {
        if !matches!(self.tls, Tls::Handshake(_)) {
            return;
        }
        let old = std::mem::replace(&mut self.tls, Tls::Taken);
        if let Tls::Handshake(mid) = old {
            match mid.handshake() {
                Ok(s) => {
                    self.tls = Tls::Up(s);
                    self.tls_established = true;
                    self.ctx.borrow_mut().ev("srv", "TLS established".to_string());
                    self.phase = if self.p.selected_protocol & 0xa != 0 && self.nla.is_some() { Phase::Nla } else { Phase::ExpectConnectInitial };
                }
                Err(HandshakeError::WouldBlock(mid)) => self.tls = Tls::Handshake(mid),
                Err(HandshakeError::Failure(e)) => {
                    self.tls = Tls::Failed;
                    self.tls_error = Some(format!("handshake: {}", e));
                    self.ctx.borrow_mut().ev("srv", "TLS handshake failed".to_string());
                    self.phase = Phase::Dead;
                }
            }
        }
    }

    fn on_frame(&mut self, frame: Vec<u8>) {
        let expect_info = !self.info_seen && matches!(self.phase, Phase::ExpectInfo);
        let decoded = strict::decode_frame(&frame, expect_info);
        if self.keep_frames {
            self.frames.push((expect_info, frame.clone()));
        }
        let seq;
        {
            let mut ctx = self.ctx.borrow_mut();
            let text = match &decoded {
                Ok(ClientMsg::ChannelJoin { .. }) => "channel-join".to_string(),
                Ok(m) => m.name(),
                Err(e) => format!("UNDECODABLE {}", e),
            };
            // channel joins come in HashMap order (the one source of nondeterminism inside the client): keep the
            // frame bytes out of the digest for them
            let body = match &decoded {
                Ok(ClientMsg::ChannelJoin { .. }) => String::new(),
                _ => hex_short(&frame),
            };
            ctx.ev("C->S", format!("{} ({} bytes) {}", text, frame.len(), body));
            seq = ctx.seq();
        }
        match decoded {
            Err(e) => {
                let lenient = strict::classify_lenient(&frame, expect_info);
                self.decode_errors.push((seq, e, frame));
                match lenient {
                    Some(msg) => {
                        self.history.push((seq, self.pumps, msg.clone()));
                        self.on_msg(msg);
                    }
                    // a server would drop the connection; we go quiet so that the client's reaction is observable
                    None => self.phase = Phase::Dead,
                }
            }
            Ok(msg) => {
                self.history.push((seq, self.pumps, msg.clone()));
                self.on_msg(msg);
            }
        }
    }

    fn unexpected(&mut self, msg: &ClientMsg) {
        self.protocol_errors.push(format!("{} while server was in {:?}", msg.name(), self.phase));
    }

    fn on_msg(&mut self, msg: ClientMsg) {
        if self.stopped {
            return;
        }
        match (&self.phase.clone(), &msg) {
            (Phase::ExpectCR, ClientMsg::ConnectionRequest { flags, protocols, .. }) => {
                self.client_requested = *protocols;
                self.client_req_flags = *flags;
                let w = if *flags & 1 != 0 && self.p.honour_restricted_admin {
                    let mut p = self.p.clone();
                    p.neg_flags |= 0x08;
                    build::connection_confirm(&p, *protocols)
                } else {
                    build::connection_confirm(&self.p, *protocols)
                };
                self.queue("connection-confirm", &w);
                if self.stopped {
                    return;
                }
                match self.p.cc_kind {
                    CcKind::Response | CcKind::UnknownType(_) | CcKind::EchoRequest => {
                        if self.p.selected_protocol & 0xb != 0 {
                            self.flush();
                            self.phase = Phase::Tls;
                            self.start_tls();
                        } else {
                            self.phase = Phase::ExpectConnectInitial;
                        }
                    }
                    CcKind::Absent => self.phase = Phase::ExpectConnectInitial,
                    CcKind::Failure(_) => self.phase = Phase::ExpectConnectInitial,
                }
            }
            (Phase::ExpectConnectInitial, ClientMsg::ConnectInitial(_)) => {
                let w = build::mcs_connect_response(&self.p, self.client_requested);
                self.queue("connect-response", &w);
                self.phase = Phase::ExpectErect;
            }
            (Phase::ExpectErect, ClientMsg::ErectDomain { .. }) => self.phase = Phase::ExpectAttach,
            (Phase::ExpectAttach, ClientMsg::AttachUser) => {
                let w = build::attach_user_confirm(&self.p);
                self.queue("attach-user-confirm", &w);
                self.phase = Phase::Joins;
            }
            (Phase::Joins, ClientMsg::ChannelJoin { initiator, channel }) | (Phase::ExpectInfo, ClientMsg::ChannelJoin { initiator, channel }) => {
                self.joins_seen.push(*channel);
                let known = *channel == self.p.io_channel || *channel == self.p.user_id;
                let w = build::channel_join_confirm(*initiator, *channel, if known { 0 } else { 8 });
                self.queue("channel-join-confirm", &w);
                if self.joins_seen.len() >= 2 {
                    self.phase = Phase::ExpectInfo;
                }
            }
            (Phase::ExpectInfo, ClientMsg::Info { .. }) => {
                self.info_seen = true;
                if let Some((chan, n)) = self.pre_license_flood {
                    let mut one = Wr::new();
                    one.u8("sdin.header", 0x68).u16be("sdin.initiator", self.p.server_channel.wrapping_sub(1001)).u16be("sdin.channelId", chan).u8("sdin.prio", 0x70).u8("sdin.length", 4).bytes("sdin.data", &[0, 0, 0, 0]);
                    let frame = build::x224_data(&one).buf;
                    let mut all = Vec::with_capacity(frame.len() * n);
                    for _ in 0..n {
                        all.extend_from_slice(&frame);
                    }
                    self.frames_sent += n;
                    self.ctx.borrow_mut().ev("fault", format!("{} send-data indications for channel {} before the licence", n, chan));
                    self.queue_raw("flood-for-an-unjoined-channel", all);
                }
                let w = build::license(&self.p);
                self.queue("license", &w);
                self.phase = Phase::Activation;
                if self.auto_activate {
                    let sid = self.p.share_id;
                    self.send_demand_active(sid);
                }
            }
            (Phase::Activation, ClientMsg::Share { pdu, .. }) | (Phase::Active, ClientMsg::Share { pdu, .. }) => {
                match pdu {
                    SharePdu::ConfirmActive(_) => {
                        self.finalize_seen = 1;
                    }
                    SharePdu::Data { pdu: DataPdu::FontList { .. }, .. } => {
                        if self.finalize_seen >= 1 {
                            self.finalize_seen = 5;
                            self.activations += 1;
                            if self.auto_activate {
                                self.send_server_finalize();
                                self.phase = Phase::Active;
                            }
                        }
                    }
                    _ => {}
                }
            }
            (_, ClientMsg::DisconnectUltimatum { .. }) => {
                self.phase = Phase::Closed;
            }
            _ => self.unexpected(&msg),
        }
    }

    fn consume(&mut self) -> bool {
        let mut progress = false;
        loop {
            if self.inbuf.is_empty() || matches!(self.phase, Phase::Dead) {
                break;
            }
            if self.phase == Phase::Nla {
                let step = {
                    let mut ctx = self.ctx.borrow_mut();
                    let cert = self.p.cert;
                    match self.nla.as_mut() {
                        Some(h) => h.on_bytes(&mut ctx, &self.inbuf, cert),
                        None => NlaStep { consumed: 0, replies: vec![], done: true, dead: false },
                    }
                };
                let c = step.consumed;
                self.inbuf.drain(..c);
                for (name, bytes) in step.replies {
                    if name == "cssp-pubkeyauth-reply" {
                        self.nla_final_pump = self.pumps;
                    }
                    // a TSRequest is a message of its own; like any other it may be cut between two TLS records
                    self.flush();
                    let w = { let mut w = Wr::new(); w.bytes("tsrequest", &bytes); w };
                    self.queue(&name, &w);
                    self.flush();
                }
                if step.dead {
                    self.phase = Phase::Dead;
                    break;
                }
                if step.done {
                    self.nla_done = true;
                    self.nla_done_pump = self.pumps;
                    self.phase = Phase::ExpectConnectInitial;
                    progress = true;
                    continue;
                }
                if c == 0 {
                    break;
                }
                progress = true;
                continue;
            }
            if self.phase == Phase::Tls {
                break;
            }
            match strict::tpkt_complete(&self.inbuf) {
                Ok(Some(n)) => {
                    let frame: Vec<u8> = self.inbuf.drain(..n).collect();
                    self.on_frame(frame);
                    progress = true;
                }
                Ok(None) => break,
                Err(e) => {
                    let seq = self.ctx.borrow().seq();
                    let junk = std::mem::take(&mut self.inbuf);
                    self.ctx.borrow_mut().ev("C->S", format!("UNFRAMEABLE {} {}", e, hex_short(&junk)));
                    self.decode_errors.push((seq, e, junk));
                    self.phase = Phase::Dead;
                    break;
                }
            }
        }
        progress
    }

    pub fn established(&self) -> bool {
        self.tls_established
    }
}

impl Pump for Server {
    fn pump(&mut self) -> bool {
        let _h = HarnessRegion::enter();
        if !self.ctx.borrow_mut().step() {
            return false;
        }
        self.pumps += 1;
        if self.go_silent || self.stopped {
            // still drain what the client sends so that writes are observable
            self.read_available();
            return false;
        }
        let before = { let w = self.wire.borrow(); (w.c2s.len(), w.s2c_total) };
        self.drive_handshake();
        self.read_available();
        self.consume();
        self.flush();
        let after = { let w = self.wire.borrow(); (w.c2s.len(), w.s2c_total) };
        before != after
    }
}
