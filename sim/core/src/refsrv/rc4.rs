//! RC4 stream cipher; the key stream state carries over between calls.

#[derive(Clone)]
pub struct Rc4 {
    s: [u8; 256],
    i: u8,
    j: u8,
}

impl Rc4 {
    pub fn new(key: &[u8]) -> Rc4 {
        assert!(!key.is_empty() && key.len() <= 256, "rc4 key length");
        let mut s = [0u8; 256];
        for (n, v) in s.iter_mut().enumerate() {
            *v = n as u8;
        }
        let mut j = 0u8;
        for n in 0..256 {
            j = j.wrapping_add(s[n]).wrapping_add(key[n % key.len()]);
            s.swap(n, j as usize);
        }
        Rc4 { s, i: 0, j: 0 }
    }

    pub fn apply(&mut self, data: &[u8]) -> Vec<u8> {
        data.iter()
            .map(|b| {
                self.i = self.i.wrapping_add(1);
                self.j = self.j.wrapping_add(self.s[self.i as usize]);
                self.s.swap(self.i as usize, self.j as usize);
                let k = self.s[self.s[self.i as usize].wrapping_add(self.s[self.j as usize]) as usize];
                b ^ k
            })
            .collect()
    }
}

#[cfg(test)]
mod tests {
    use super::Rc4;
    fn hex(b: &[u8]) -> String { b.iter().map(|x| format!("{:02x}", x)).collect() }

    #[test]
    fn classic_vectors() {
        assert_eq!(hex(&Rc4::new(b"Key").apply(b"Plaintext")), "bbf316e8d940af0ad3");
        assert_eq!(hex(&Rc4::new(b"Wiki").apply(b"pedia")), "1021bf0420");
        assert_eq!(hex(&Rc4::new(b"Secret").apply(b"Attack at dawn")), "45a01f645fc35b383552544b9bf5");
    }

    #[test]
    fn rfc6229_key_40bit() {
        // RFC 6229, key 0x0102030405, key stream offset 0
        let ks = Rc4::new(&[1, 2, 3, 4, 5]).apply(&[0u8; 32]);
        assert_eq!(hex(&ks), "b2396305f03dc027ccc3524a0a1118a86982944f18fc82d589c403a47a0d0919");
    }

    #[test]
    fn state_carries_over() {
        let mut a = Rc4::new(b"Secret");
        let mut out = a.apply(b"Attack");
        out.extend(a.apply(b" at dawn"));
        assert_eq!(hex(&out), "45a01f645fc35b383552544b9bf5");
        let mut d = Rc4::new(b"Secret");
        assert_eq!(d.apply(&out[..3]), b"Att");
        assert_eq!(d.apply(&out[3..]), b"ack at dawn");
    }
}
