//! The real client (crate `rdp`) driven against the reference server.

use simcore::refsrv::{cssp, der, ntlm};
use rdp::nla::ntlm::Ntlm;
use rdp::nla::sspi::{AuthenticationProtocol, GenericSecurityService};
use std::panic::{catch_unwind, AssertUnwindSafe};

const TIME: [u8; 8] = [0x80, 0x3e, 0xd5, 0xde, 0xb1, 0x9d, 0x01, 0x01];

fn cfg(av_pairs: Vec<(u16, Vec<u8>)>, with_version: bool, target_info_first: bool) -> ntlm::ChallengeCfg {
    ntlm::ChallengeCfg { server_challenge: [0x01, 0x23, 0x45, 0x67, 0x89, 0xab, 0xcd, 0xef], target_name: "SRV".into(), av_pairs, with_version, extra_flags: 0, target_info_first }
}

/// AV pair sets in different orders; always with MsvAvTimestamp (the client panics without one)
fn av_sets() -> Vec<Vec<(u16, Vec<u8>)>> {
    let (nb_dom, nb_comp, dns_dom, dns_comp) = ((2u16, ntlm::utf16le("DOM")), (1u16, ntlm::utf16le("SRV")), (4u16, ntlm::utf16le("dom.example")), (3u16, ntlm::utf16le("srv.dom.example")));
    let time = (7u16, TIME.to_vec());
    vec![
        vec![time.clone()],
        vec![nb_dom.clone(), nb_comp.clone(), dns_dom.clone(), dns_comp.clone(), time.clone()],
        vec![time.clone(), dns_comp.clone(), nb_dom.clone()],
        vec![nb_comp.clone(), time.clone(), (5, ntlm::utf16le("forest.example")), (2, Vec::new())],
    ]
}

fn credentials() -> Vec<(&'static str, &'static str, &'static str)> {
    vec![
        ("DOMAIN", "user", "password"),
        ("", "administrator", "P@ssw0rd!"),
        ("dom", "", ""),
        ("", "", ""),
        ("Dömäin", "Üser-ñ", "pässwörd-€"),
        ("домен", "пользователь", "пароль"),
        ("域", "用户\u{1F600}", "密码\u{1F511}\u{10348}"),
        ("D", "straße", "x"),
        ("WORKGROUP", "a.very.long.user.name.with.many.characters.0123456789.0123456789", "a long pass phrase with spaces and \"quotes\" and \\ backslashes"),
    ]
}

struct Session {
    client: Ntlm,
    neg: ntlm::Negotiate,
    challenge: Vec<u8>,
    auth: ntlm::Authenticate,
}

/// negotiate -> challenge -> authenticate with the real client; Err says what went wrong (client panics included)
fn exchange(mut client: Ntlm, cfg: &ntlm::ChallengeCfg, rnd: u8) -> Result<Session, String> {
    rdp::model::rnd::verif::install(Some(Box::new(move |n| vec![rnd; n])));
    let neg_raw = client.create_negotiate_message().map_err(|e| format!("client negotiate: {:?}", e))?;
    let neg = ntlm::parse_negotiate(&neg_raw)?;
    let challenge = ntlm::build_challenge(&neg, cfg);
    let auth_raw = catch_unwind(AssertUnwindSafe(|| client.read_challenge_message(&challenge)))
        .map_err(|_| "client panicked in read_challenge_message".to_string())?
        .map_err(|e| format!("client challenge: {:?}", e))?;
    let auth = ntlm::parse_authenticate(&auth_raw)?;
    Ok(Session { client, neg, challenge, auth })
}

fn established(d: &str, u: &str, p: &str, rnd: u8) -> (Session, ntlm::Verified) {
    let c = cfg(av_sets().remove(1), true, false);
    let s = exchange(Ntlm::new(d.into(), u.into(), p.into()), &c, rnd).unwrap();
    let v = ntlm::verify_authenticate(&s.neg, &s.challenge, &c, &s.auth, &ntlm::nt_hash(p)).unwrap();
    (s, v)
}

#[test]
fn negotiate_of_the_client() {
    let mut client = Ntlm::new("d".into(), "u".into(), "p".into());
    let n = ntlm::parse_negotiate(&client.create_negotiate_message().unwrap()).unwrap();
    assert_eq!((n.raw.len(), n.flags, n.has_version), (32, 0x60088235, false));
    assert!(n.domain.is_empty() && n.workstation.is_empty());
}

#[test]
fn end_to_end_matrix() {
    let mut runs = 0;
    for (d, u, p) in credentials() {
        let hash = ntlm::nt_hash(p);
        for (i, avs) in av_sets().into_iter().enumerate() {
            for ver in [true, false] {
                for first in [false, true] {
                    let c = cfg(avs.clone(), ver, first);
                    let what = format!("{:?} avs{} version={} target_info_first={}", (d, u, p), i, ver, first);
                    for from_hash in [false, true] {
                        let rnd = 0x42u8.wrapping_add(runs as u8);
                        let client = if from_hash { Ntlm::from_hash(d.into(), u.into(), &hash) } else { Ntlm::new(d.into(), u.into(), p.into()) };
                        let s = exchange(client, &c, rnd).unwrap_or_else(|e| panic!("{}: {}", what, e));
                        let v = ntlm::verify_authenticate(&s.neg, &s.challenge, &c, &s.auth, &hash).unwrap_or_else(|e| panic!("{}: {}", what, e));
                        assert_eq!((v.user.as_str(), v.domain.as_str()), (u, d), "{}", what);
                        assert!(v.mic_checked, "{}", what);
                        assert_eq!(s.auth.has_version, ver, "{}", what);
                        assert_eq!((s.auth.mic_offset, s.auth.payload_offset), if ver { (72, 88) } else { (64, 80) }, "{}", what);
                        assert_ne!(s.auth.flags & ntlm::NEG_UNICODE, 0);
                        assert_eq!(s.auth.user, ntlm::utf16le(u));
                        assert_eq!(s.auth.domain, ntlm::utf16le(d));
                        // the random source of the client is pinned: client challenge and random session key
                        assert_eq!(v.client_challenge, [rnd; 8], "{}", what);
                        assert_eq!(v.exported_session_key, [rnd; 16], "{}", what);
                        assert_ne!(v.session_base_key, v.exported_session_key);
                        // wrong password, wrong hash
                        for wrong in [format!("{}x", p), p.to_uppercase() + "-", "\u{1F511}".to_string()] {
                            let e = ntlm::verify_authenticate(&s.neg, &s.challenge, &c, &s.auth, &ntlm::nt_hash(&wrong)).unwrap_err();
                            assert!(e.starts_with("ntproof:"), "{}: {}", what, e);
                        }
                        // another server challenge than the one the client answered
                        let mut other = c.clone();
                        other.server_challenge[7] ^= 1;
                        assert!(ntlm::verify_authenticate(&s.neg, &s.challenge, &other, &s.auth, &hash).unwrap_err().starts_with("ntproof:"));
                        // another timestamp / target info than the one sent
                        let mut other = c.clone();
                        other.av_pairs.iter_mut().find(|(id, _)| *id == 7).unwrap().1[0] ^= 1;
                        assert!(ntlm::verify_authenticate(&s.neg, &s.challenge, &other, &s.auth, &hash).unwrap_err().starts_with("temp:"));
                        let mut other = c.clone();
                        other.av_pairs.push((9, ntlm::utf16le("TERMSRV/x")));
                        assert!(ntlm::verify_authenticate(&s.neg, &s.challenge, &other, &s.auth, &hash).unwrap_err().starts_with("temp:"));
                        // tampering with any of the three messages breaks the MIC
                        let mut neg = s.neg.clone();
                        neg.raw[12] ^= 0x20;
                        assert!(ntlm::verify_authenticate(&neg, &s.challenge, &c, &s.auth, &hash).unwrap_err().starts_with("mic:"));
                        let mut ch = s.challenge.clone();
                        ch[20] ^= 0x20;
                        assert!(ntlm::verify_authenticate(&s.neg, &ch, &c, &s.auth, &hash).unwrap_err().starts_with("mic:"));
                        let mut raw = s.auth.raw.clone();
                        raw[60] ^= 0x20; // drop NEGOTIATE_SEAL from the flags of the AUTHENTICATE
                        let tampered = ntlm::parse_authenticate(&raw).unwrap();
                        assert!(ntlm::verify_authenticate(&s.neg, &s.challenge, &c, &tampered, &hash).unwrap_err().starts_with("mic:"));
                        runs += 1;
                    }
                }
            }
        }
    }
    assert_eq!(runs, 9 * 4 * 2 * 2 * 2);
}

#[test]
fn authenticate_of_the_client_is_tiled_exactly() {
    let (s, _) = established("DOMAIN", "user", "password", 0x42);
    let a = &s.auth;
    assert_eq!(a.lm_response.len(), 24);
    assert!(a.workstation.is_empty());
    assert_eq!(a.encrypted_session_key.len(), 16);
    // every truncation and every extension of the message is refused by the strict parser
    for cut in 0..a.raw.len() {
        assert!(ntlm::parse_authenticate(&a.raw[..cut]).is_err(), "cut at {}", cut);
    }
    let mut longer = a.raw.clone();
    longer.push(0);
    assert!(ntlm::parse_authenticate(&longer).is_err());
}

#[test]
fn sealing_interop() {
    for (d, u, p) in credentials() {
        let (s, v) = established(d, u, p, 0x77);
        let mut client = s.client.build_security_interface();
        let mut server = ntlm::SealCtx::new(&v.exported_session_key, true);
        let messages: Vec<Vec<u8>> = vec![b"hello".to_vec(), (0..=255u8).cycle().take(270).collect(), vec![0], vec![0xff; 5000], b"last".to_vec()];
        for (i, m) in messages.iter().enumerate() {
            // client -> server
            let w = client.gss_wrapex(m).unwrap();
            assert_eq!(w.len(), m.len() + 16);
            assert_eq!(w[12..16], (i as u32).to_le_bytes());
            if m.len() <= 270 {
                for bit in 0..w.len() * 8 {
                    let mut f = w.clone();
                    f[bit / 8] ^= 1 << (bit % 8);
                    assert!(server.unseal(&f).is_err(), "bit {} of message {}", bit, i);
                }
            }
            assert_eq!(&server.unseal(&w).unwrap(), m, "message {} of {:?}", i, (d, u, p));
            assert!(server.unseal(&w).unwrap_err().starts_with("seq:"));
            // server -> client
            let back: Vec<u8> = m.iter().rev().cloned().collect();
            let w = server.seal(&back);
            assert_eq!(client.gss_unwrapex(&w).unwrap(), back, "reply {} of {:?}", i, (d, u, p));
        }
        assert_eq!((server.send_seq(), server.recv_seq()), (5, 5));
    }
}

#[test]
fn sealing_several_in_one_direction() {
    // the key stream of each direction runs on independently of the other direction
    let (s, v) = established("d", "u", "p", 0x10);
    let mut client = s.client.build_security_interface();
    let mut server = ntlm::SealCtx::new(&v.exported_session_key, true);
    let wrapped: Vec<Vec<u8>> = (0..6).map(|i| client.gss_wrapex(&vec![i as u8; 10 * i + 1]).unwrap()).collect();
    for i in 0..6 {
        let w = server.seal(&[i as u8 ^ 0x55; 33]);
        assert_eq!(client.gss_unwrapex(&w).unwrap(), vec![i as u8 ^ 0x55; 33]);
    }
    // out of order delivery is refused, in order delivery works afterwards
    assert!(server.unseal(&wrapped[1]).unwrap_err().starts_with("seq:"));
    for (i, w) in wrapped.iter().enumerate() {
        assert_eq!(server.unseal(w).unwrap(), vec![i as u8; 10 * i + 1]);
    }
    // a context keyed with the session base key instead of the exported key does not interoperate
    let mut wrong = ntlm::SealCtx::new(&v.session_base_key, true);
    assert!(wrong.unseal(&wrapped[0]).unwrap_err().starts_with("checksum:"));
}

#[test]
fn cssp_interop() {
    let (s, _) = established("DOMAIN", "user", "password", 0x42);
    let mut tokens: Vec<Vec<u8>> = vec![s.neg.raw.clone(), s.auth.raw.clone()];
    for n in [0usize, 1, 100, 110, 127, 128, 200, 255, 256, 1000, 70000] {
        tokens.push((0..n).map(|i| i as u8).collect());
    }
    for token in &tokens {
        let e = rdp::nla::cssp::create_ts_request(token.clone());
        let r = cssp::parse_ts_request(&e, true).unwrap_or_else(|err| panic!("token of {}: {}", token.len(), err));
        assert_eq!(r, cssp::TsRequest { version: 2, nego_tokens: vec![token.clone()], ..Default::default() });
        assert_eq!(cssp::build_ts_request(&r), e, "token of {}", token.len());
        assert_eq!(der::complete_len(&e), Ok(Some(e.len())));

        for pk in [vec![], vec![0xa5; 16], vec![0x5a; 286], vec![1; 4096]] {
            let e = rdp::nla::cssp::create_ts_authenticate(token.clone(), pk.clone());
            let r = cssp::parse_ts_request(&e, true).unwrap_or_else(|err| panic!("token of {} key of {}: {}", token.len(), pk.len(), err));
            assert_eq!(r, cssp::TsRequest { version: 2, nego_tokens: vec![token.clone()], pub_key_auth: Some(pk.clone()), ..Default::default() });
            assert_eq!(cssp::build_ts_request(&r), e);
            // strict rejects what a lenient parser lets through
            let mut trailing = e.clone();
            trailing.push(0);
            assert!(cssp::parse_ts_request(&trailing, true).is_err());
            assert_eq!(cssp::parse_ts_request(&trailing, false).unwrap(), r);
            let (outer, _) = der::parse_tlv(&e, true).unwrap();
            let relaxed = der::tlv_long(0x30, &outer.value, if outer.header_len == 2 { 1 } else { outer.header_len - 1 });
            assert!(cssp::parse_ts_request(&relaxed, true).is_err());
            assert_eq!(cssp::parse_ts_request(&relaxed, false).unwrap(), r);
        }
    }
    // the other direction: what the reference server builds is read by the client
    let challenge = s.challenge.clone();
    let e = cssp::build_ts_request(&cssp::TsRequest { version: 6, nego_tokens: vec![challenge.clone()], ..Default::default() });
    assert_eq!(rdp::nla::cssp::read_ts_server_challenge(&e).unwrap(), challenge);
    let e = cssp::build_ts_request(&cssp::TsRequest { version: 6, pub_key_auth: Some(vec![7; 300]), ..Default::default() });
    assert_eq!(rdp::nla::cssp::read_ts_validate(&e).unwrap(), vec![7; 300]);
}
